// Kani proof harnesses for the REAL parser functions of /repo/impl/src/fmt/parsing.rs (copied
// byte-for-byte into the parent module on every run). Contract of every function f:
//     real_f(s) == spec_f(s)      (same Option-ness, same remainder pointer+length, same AST value)
// for every input string s of the shape stated per harness. Callees are replaced by their
// specifications (`#[kani::stub]`), which the callee's own obligation licenses.
//
// The constants A_*, W_* (string length bounds per tier) are prepended by props/C03.py.
use super::spec::*;
use super::*;

// ---- uninterpreted XID predicates for the (single) non-ASCII character of an input -------------
static mut XSTART: bool = false;
static mut XCONT: bool = false;
pub(crate) fn xid_start_stub(_c: char) -> bool {
    unsafe { XSTART }
}
pub(crate) fn xid_continue_stub(_c: char) -> bool {
    unsafe { XCONT }
}
fn init_xid() {
    unsafe {
        XSTART = kani::any();
        XCONT = kani::any();
    }
}

// ---- symbolic input strings (all buffer indices concrete) -----------------------------------------
/// every ASCII string of length <= n (n <= 8), every byte an arbitrary 7-bit value
fn ascii(buf: &mut [u8; 8], n_max: usize) -> &str {
    let x: u64 = kani::any();
    kani::assume(x & 0x8080_8080_8080_8080u64 == 0);
    *buf = x.to_le_bytes();
    let n: usize = kani::any();
    kani::assume(n <= n_max);
    unsafe { core::str::from_utf8_unchecked(&buf[..n]) }
}

/// `[<= 1 ASCII byte (iff lead)][ONE arbitrary Unicode scalar value][ASCII tail <= t_max bytes]`
/// the scalar is written right-aligned in front of the tail; a one-byte lead goes in front of it.
fn wide(buf: &mut [u8; 16], lead: bool, t_max: usize) -> &str {
    let x: u64 = kani::any();
    kani::assume(x & 0x8080_8080_8080_8080u64 == 0);
    let tail = x.to_le_bytes();
    buf[8] = tail[0];
    buf[9] = tail[1];
    buf[10] = tail[2];
    buf[11] = tail[3];
    buf[12] = tail[4];
    buf[13] = tail[5];
    buf[14] = tail[6];
    buf[15] = tail[7];
    let t: usize = kani::any();
    kani::assume(t <= t_max);
    let c: char = kani::any();
    let lb: u8 = kani::any();
    kani::assume(lb < 0x80);
    let mut tmp = [0u8; 4];
    let l = c.encode_utf8(&mut tmp).len();
    let start;
    match l {
        1 => {
            buf[7] = tmp[0];
            buf[6] = lb;
            start = 7;
        }
        2 => {
            buf[6] = tmp[0];
            buf[7] = tmp[1];
            buf[5] = lb;
            start = 6;
        }
        3 => {
            buf[5] = tmp[0];
            buf[6] = tmp[1];
            buf[7] = tmp[2];
            buf[4] = lb;
            start = 5;
        }
        _ => {
            buf[4] = tmp[0];
            buf[5] = tmp[1];
            buf[6] = tmp[2];
            buf[7] = tmp[3];
            buf[3] = lb;
            start = 4;
        }
    }
    let start = if lead { start - 1 } else { start };
    if kani::any() {
        return ""; // the empty input
    }
    unsafe { core::str::from_utf8_unchecked(&buf[start..8 + t]) }
}

/// printed only under native playback (Kani turns `eprintln!` into a no-op): the counterexample input
fn report(s: &str) {
    eprintln!("CEX-INPUT {:?}", s);
}

fn same<T: PartialEq>(a: &Option<(&str, T)>, b: &Option<(&str, T)>) -> bool {
    match (a, b) {
        (None, None) => true,
        (Some((ra, ta)), Some((rb, tb))) => ra.as_ptr() == rb.as_ptr() && ra.len() == rb.len() && ta == tb,
        _ => false,
    }
}
fn same_rest(a: &Option<&str>, b: &Option<&str>) -> bool {
    match (a, b) {
        (None, None) => true,
        (Some(ra), Some(rb)) => ra.as_ptr() == rb.as_ptr() && ra.len() == rb.len(),
        _ => false,
    }
}

macro_rules! mk_input {
    (ascii, $buf8:ident, $buf16:ident, $n:expr) => { ascii(&mut $buf8, $n) };
    (wide0, $buf8:ident, $buf16:ident, $n:expr) => { wide(&mut $buf16, false, $n) };
    (wide1, $buf8:ident, $buf16:ident, $n:expr) => { wide(&mut $buf16, true, $n) };
}

macro_rules! contract_eq {
    ($(#[$m:meta])* $name:ident, $real:expr, $spec:expr, $cmp:ident, $shape:ident, $n:expr) => {
        $(#[$m])*
        #[kani::proof]
        #[kani::stub(unicode_xid::tables::derived_property::XID_Start, xid_start_stub)]
        #[kani::stub(unicode_xid::tables::derived_property::XID_Continue, xid_continue_stub)]
        fn $name() {
            init_xid();
            let mut buf8 = [0u8; 8];
            let mut buf16 = [0u8; 16];
            let s = mk_input!($shape, buf8, buf16, $n);
            report(s);
            let r = $real(s);
            let e = $spec(s);
            kani::cover!(r.is_some(), "accepting input reachable");
            kani::cover!(r.is_none(), "rejecting input reachable");
            assert!($cmp(&r, &e), "real == spec");
        }
    };
}

// ---- level 0: character primitives ---------------------------------------------------------------
contract_eq!(#[kani::unwind(9)] ob_any_char, any_char, spec_any_char, same_rest, wide0, 1);
contract_eq!(#[kani::unwind(9)] ob_take_any_char, take_any_char, spec_take_any_char, same, wide0, 1);

#[kani::proof]
#[kani::unwind(9)]
fn ob_char() {
    // `char(c)` for EVERY c: Some(rest after c) iff the input starts with c
    let c: char = kani::any();
    let mut buf16 = [0u8; 16];
    let s = wide(&mut buf16, false, 1);
    report(s);
    let r = char(c)(s);
    let e = match first(s) {
        Some((d, rest)) if d == c => Some(rest),
        _ => None,
    };
    kani::cover!(r.is_some(), "accepting input reachable");
    kani::cover!(r.is_none(), "rejecting input reachable");
    assert!(same_rest(&r, &e), "real == spec");
}

#[kani::proof]
#[kani::unwind(9)]
fn ob_str2() {
    // `str(lit)` for the literals the grammar uses it with
    let mut buf8 = [0u8; 8];
    let s = ascii(&mut buf8, 3);
    report(s);
    let b = s.as_bytes();
    let r1 = str("{{")(s);
    let e1 = if b.len() >= 2 && b[0] == b'{' && b[1] == b'{' { Some(&s[2..]) } else { None };
    assert!(same_rest(&r1, &e1), "str(\"{{\") == spec");
    let r2 = str("x?")(s);
    let e2 = if b.len() >= 2 && b[0] == b'x' && b[1] == b'?' { Some(&s[2..]) } else { None };
    kani::cover!(r2.is_some(), "accepting input reachable");
    kani::cover!(r2.is_none(), "rejecting input reachable");
    assert!(same_rest(&r2, &e2), "str(\"x?\") == spec");
}

#[kani::proof]
#[kani::unwind(9)]
fn ob_one_of() {
    let mut buf16 = [0u8; 16];
    let s = wide(&mut buf16, false, 1);
    report(s);
    let r = one_of("{}")(s);
    let e = match first(s) {
        Some((d, rest)) if d == '{' || d == '}' => Some(rest),
        _ => None,
    };
    kani::cover!(r.is_some(), "accepting input reachable");
    kani::cover!(r.is_none(), "rejecting input reachable");
    assert!(same_rest(&r, &e), "real == spec");
}

pub(crate) fn spec_ws_opt(input: &str) -> Option<&str> {
    Some(spec_ws(input))
}
#[kani::proof]
#[kani::unwind(9)]
fn ob_whitespaces() {
    let mut buf16 = [0u8; 16];
    let s = wide(&mut buf16, true, W_WS);
    report(s);
    let r = whitespaces(s);
    let e = spec_ws_opt(s);
    kani::cover!(r.map(|x| x.len() < s.len()).unwrap_or(false), "some whitespace consumed");
    kani::cover!(r.map(|x| x.len() == s.len()).unwrap_or(false), "no whitespace consumed");
    assert!(same_rest(&r, &e), "real == spec");
}

// ---- level 1 ---------------------------------------------------------------------------------------
contract_eq!(#[kani::unwind(9)] ob_text, text, spec_text, same, ascii, A_L1);
contract_eq!(#[kani::unwind(9)] ob_text_wide, text, spec_text, same, wide1, W_L1);
contract_eq!(#[kani::unwind(9)] ob_identifier, identifier, spec_identifier, same, ascii, A_L1);
contract_eq!(#[kani::unwind(9)] ob_identifier_wide, identifier, spec_identifier, same, wide1, W_L1);
contract_eq!(#[kani::unwind(9)] ob_integer, integer, spec_integer, same, ascii, A_INT);

// ---- level 2 leaves on symbolic strings -------------------------------------------------------------
contract_eq!(#[kani::unwind(9)] ob_align, align, spec_align, same, wide0, 1);
contract_eq!(#[kani::unwind(9)] ob_sign, sign, spec_sign, same, wide0, 1);
contract_eq!(
    #[kani::unwind(13)]
    #[kani::stub(super::whitespaces, spec_ws_opt)]
    ob_type, type_, spec_type, same, ascii, A_TYPE);

// ---- callee abstraction: deterministic uninterpreted functions -------------------------------------------
// For the composite functions the callees are NOT executed. Each callee (real AND its spec twin) is replaced
// by one and the same uninterpreted function: for every distinct input (identified by its length, all inputs of
// one harness being suffixes of one string) it returns an arbitrary but fixed result `None | Some((suffix, value))`.
// The obligation `f_real[UF] == f_spec[UF]` then holds for EVERY behaviour of the callees, in particular for the
// real ones, which are proved equal to their specs by their own obligations: that is the modular step.
const K: usize = 6;
#[derive(Clone, Copy)]
struct Uf<T: Copy> {
    n: usize,
    key: [usize; K],
    res: [Option<(usize, T)>; K],
}
impl<T: Copy> Uf<T> {
    const NEW: Self = Uf { n: 0, key: [usize::MAX; K], res: [None; K] };
}
macro_rules! probe {
    ($m:ident, $i:expr, $len:expr) => {
        if $i < $m.n && $m.key[$i] == $len {
            return $m.res[$i];
        }
    };
}
fn uf_call<T: Copy>(m: &mut Uf<T>, input: &str, min: usize, gen: fn(&str, usize) -> T) -> Option<(usize, T)> {
    let len = input.len();
    probe!(m, 0, len);
    probe!(m, 1, len);
    probe!(m, 2, len);
    probe!(m, 3, len);
    probe!(m, 4, len);
    probe!(m, 5, len);
    let r = if kani::any() {
        let k: usize = kani::any();
        kani::assume(k >= min && k <= input.len() && input.is_char_boundary(k));
        Some((k, gen(input, k)))
    } else {
        None
    };
    kani::assume(m.n < K);
    m.key[m.n] = input.len();
    m.res[m.n] = r;
    m.n += 1;
    r
}
fn st(s: &str) -> &'static str {
    unsafe { core::mem::transmute::<&str, &'static str>(s) }
}
fn nd_prefix(input: &str, k: usize) -> &'static str {
    let j: usize = kani::any();
    kani::assume(j <= k && input.is_char_boundary(j));
    st(&input[..j])
}
fn nd_usize(_: &str, _: usize) -> usize {
    kani::any()
}
fn nd_unit(_: &str, _: usize) {}
fn nd_argument(input: &str, k: usize) -> Argument<'static> {
    if kani::any() {
        Argument::Integer(kani::any())
    } else {
        Argument::Identifier(nd_prefix(input, k))
    }
}
fn nd_count(input: &str, k: usize) -> Count<'static> {
    if kani::any() {
        Count::Integer(kani::any())
    } else {
        Count::Parameter(nd_argument(input, k))
    }
}
fn nd_precision(input: &str, k: usize) -> Precision<'static> {
    if kani::any() {
        Precision::Star
    } else {
        Precision::Count(nd_count(input, k))
    }
}
fn nd_align(_: &str, _: usize) -> Align {
    let x: u8 = kani::any();
    match x % 3 {
        0 => Align::Left,
        1 => Align::Center,
        _ => Align::Right,
    }
}
fn nd_sign(_: &str, _: usize) -> Sign {
    if kani::any() {
        Sign::Plus
    } else {
        Sign::Minus
    }
}
fn nd_type(_: &str, _: usize) -> Type {
    let x: u8 = kani::any();
    match x % 11 {
        0 => Type::Display,
        1 => Type::Debug,
        2 => Type::LowerDebug,
        3 => Type::UpperDebug,
        4 => Type::Octal,
        5 => Type::LowerHex,
        6 => Type::UpperHex,
        7 => Type::Pointer,
        8 => Type::Binary,
        9 => Type::LowerExp,
        _ => Type::UpperExp,
    }
}
fn nd_format_spec(input: &str, k: usize) -> FormatSpec<'static> {
    FormatSpec {
        align: if kani::any() { Some((if kani::any() { Some(kani::any()) } else { None }, nd_align(input, k))) } else { None },
        sign: if kani::any() { Some(nd_sign(input, k)) } else { None },
        alternate: if kani::any() { Some(Alternate) } else { None },
        zero_padding: if kani::any() { Some(ZeroPadding) } else { None },
        width: if kani::any() { Some(nd_count(input, k)) } else { None },
        precision: if kani::any() { Some(nd_precision(input, k)) } else { None },
        ty: nd_type(input, k),
    }
}
fn nd_format(input: &str, k: usize) -> Format<'static> {
    Format {
        arg: if kani::any() { Some(nd_argument(input, k)) } else { None },
        spec: if kani::any() { Some(nd_format_spec(input, k)) } else { None },
    }
}
fn nd_maybe_format(input: &str, k: usize) -> Option<Format<'static>> {
    if kani::any() {
        Some(nd_format(input, k))
    } else {
        None
    }
}

macro_rules! uf_fn {
    ($name:ident, $memo:ident, $t:ty, $out:ty, $gen:expr, $min:expr) => {
        static mut $memo: Uf<$t> = Uf::NEW;
        pub(crate) fn $name(input: &str) -> Option<(&str, $out)> {
            #[allow(static_mut_refs)]
            let m = unsafe { &mut $memo };
            uf_call(m, input, $min, $gen).map(|(k, v)| (&input[k..], v))
        }
    };
}
uf_fn!(uf_integer, M_INTEGER, usize, usize, nd_usize, 1);
uf_fn!(uf_argument, M_ARGUMENT, Argument<'static>, Argument<'_>, nd_argument, 1);
uf_fn!(uf_parameter, M_PARAMETER, Argument<'static>, Argument<'_>, nd_argument, 1);
uf_fn!(uf_count, M_COUNT, Count<'static>, Count<'_>, nd_count, 1);
uf_fn!(uf_precision, M_PRECISION, Precision<'static>, Precision<'_>, nd_precision, 1);
uf_fn!(uf_align, M_ALIGN, Align, Align, nd_align, 1);
uf_fn!(uf_sign, M_SIGN, Sign, Sign, nd_sign, 1);
uf_fn!(uf_type, M_TYPE, Type, Type, nd_type, 0);
uf_fn!(uf_format_spec, M_FORMAT_SPEC, FormatSpec<'static>, FormatSpec<'_>, nd_format_spec, 0);
uf_fn!(uf_format, M_FORMAT, Format<'static>, Format<'_>, nd_format, 2);
uf_fn!(uf_maybe_format, M_MAYBE_FORMAT, Option<Format<'static>>, Option<Format<'_>>, nd_maybe_format, 1);
static mut M_IDENTIFIER: Uf<()> = Uf::NEW;
pub(crate) fn uf_identifier(input: &str) -> Option<(&str, &str)> {
    // like the real one, the identifier IS the consumed text
    #[allow(static_mut_refs)]
    let m = unsafe { &mut M_IDENTIFIER };
    uf_call(m, input, 1, nd_unit).map(|(k, _)| (&input[k..], &input[..k]))
}
static mut M_TEXT: Uf<()> = Uf::NEW;
pub(crate) fn uf_text(input: &str) -> Option<(&str, &str)> {
    #[allow(static_mut_refs)]
    let m = unsafe { &mut M_TEXT };
    uf_call(m, input, 1, nd_unit).map(|(k, _)| (&input[k..], &input[..k]))
}
static mut M_WS: Uf<()> = Uf::NEW;
pub(crate) fn uf_whitespaces(input: &str) -> Option<&str> {
    // never fails (contract of `whitespaces`, proved by ob_whitespaces)
    #[allow(static_mut_refs)]
    let m = unsafe { &mut M_WS };
    match uf_call(m, input, 0, nd_unit) {
        Some((k, _)) => Some(&input[k..]),
        None => Some(input),
    }
}
/// spec twin of `whitespaces` has the signature `&str -> &str`
pub(crate) fn uf_ws_plain(input: &str) -> &str {
    uf_whitespaces(input).unwrap()
}

// ---- level 2: composites over abstract callees ---------------------------------------------------------
contract_eq!(
    #[kani::unwind(7)]
    #[kani::stub(super::identifier, uf_identifier)]
    #[kani::stub(super::spec::spec_identifier, uf_identifier)]
    #[kani::stub(super::integer, uf_integer)]
    #[kani::stub(super::spec::spec_integer, uf_integer)]
    ob_argument, argument, spec_argument, same, ascii, A_UF);
contract_eq!(
    #[kani::unwind(7)]
    #[kani::stub(super::argument, uf_argument)]
    #[kani::stub(super::spec::spec_argument, uf_argument)]
    ob_parameter, parameter, spec_parameter, same, ascii, A_UF);
contract_eq!(
    #[kani::unwind(7)]
    #[kani::stub(super::parameter, uf_parameter)]
    #[kani::stub(super::spec::spec_parameter, uf_parameter)]
    #[kani::stub(super::integer, uf_integer)]
    #[kani::stub(super::spec::spec_integer, uf_integer)]
    ob_count, count, spec_count, same, ascii, A_UF);
contract_eq!(
    #[kani::unwind(7)]
    #[kani::stub(super::count, uf_count)]
    #[kani::stub(super::spec::spec_count, uf_count)]
    ob_precision, precision, spec_precision, same, ascii, A_UF);

// ---- level 3 ---------------------------------------------------------------------------------------
contract_eq!(
    #[kani::unwind(7)]
    #[kani::stub(super::align, uf_align)]
    #[kani::stub(super::spec::spec_align, uf_align)]
    #[kani::stub(super::sign, uf_sign)]
    #[kani::stub(super::spec::spec_sign, uf_sign)]
    #[kani::stub(super::count, uf_count)]
    #[kani::stub(super::spec::spec_count, uf_count)]
    #[kani::stub(super::precision, uf_precision)]
    #[kani::stub(super::spec::spec_precision, uf_precision)]
    #[kani::stub(super::type_, uf_type)]
    #[kani::stub(super::spec::spec_type, uf_type)]
    ob_format_spec, format_spec, spec_format_spec, same, ascii, A_UF);
contract_eq!(
    #[kani::stub(super::align, uf_align)]
    #[kani::stub(super::spec::spec_align, uf_align)]
    #[kani::stub(super::sign, uf_sign)]
    #[kani::stub(super::spec::spec_sign, uf_sign)]
    #[kani::stub(super::count, uf_count)]
    #[kani::stub(super::spec::spec_count, uf_count)]
    #[kani::stub(super::precision, uf_precision)]
    #[kani::stub(super::spec::spec_precision, uf_precision)]
    #[kani::stub(super::type_, uf_type)]
    #[kani::stub(super::spec::spec_type, uf_type)]
    #[kani::unwind(12)]
    ob_format_spec_wide_fill, format_spec, spec_format_spec, same, wide0, W_UF);
contract_eq!(
    #[kani::unwind(7)]
    #[kani::stub(super::argument, uf_argument)]
    #[kani::stub(super::spec::spec_argument, uf_argument)]
    #[kani::stub(super::format_spec, uf_format_spec)]
    #[kani::stub(super::spec::spec_format_spec, uf_format_spec)]
    #[kani::stub(super::whitespaces, uf_whitespaces)]
    #[kani::stub(super::spec::spec_ws, uf_ws_plain)]
    ob_format, format, spec_format, same, ascii, A_UF);
contract_eq!(
    #[kani::unwind(7)]
    #[kani::stub(super::format, uf_format)]
    #[kani::stub(super::spec::spec_format, uf_format)]
    ob_maybe_format, maybe_format, spec_maybe_format, same, ascii, A_UF);

// ---- level 4 ---------------------------------------------------------------------------------------
// `format_string` (iter::repeat().scan().flatten().collect() into a Vec) exhausts 20 GB / 25 min under CBMC even for
// 3-byte inputs with abstract callees: it is NOT under a Kani obligation. Its stand-in is the native bounded-exhaustive
// comparison `oracle sweep` (labelled bounded in the evidence).

// ---- C18: totality of the arithmetic on long digit strings --------------------------------------------
#[kani::proof]
#[kani::unwind(24)]
fn tot_integer_long() {
    // digit strings up to 21 chars: a value beyond usize is `None`, never a panic / overflow
    let x: u128 = kani::any();
    let y: u64 = kani::any();
    let mut buf = [0u8; 24];
    let xb = x.to_le_bytes();
    let yb = y.to_le_bytes();
    let mut i = 0;
    while i < 16 {
        kani::assume(xb[i] < 10);
        buf[i] = b'0' + xb[i];
        i += 1;
    }
    let mut j = 0;
    while j < 5 {
        kani::assume(yb[j] < 10);
        buf[16 + j] = b'0' + yb[j];
        j += 1;
    }
    let n: usize = kani::any();
    kani::assume(n <= 21);
    let s = unsafe { core::str::from_utf8_unchecked(&buf[..n]) };
    report(s);
    let r = integer(s);
    kani::cover!(n == 21 && r.is_none(), "overflowing literal reachable");
    kani::cover!(n == 20 && r.is_some(), "20-digit literal that fits reachable");
    if let Some((rest, _)) = r {
        assert!(rest.is_empty(), "all digits consumed");
    }
}

// PLAYBACK-INSERTION-POINT
