// Kani proof harnesses for the REAL parser functions of /repo/impl/src/fmt/parsing.rs (copied
// byte-for-byte into the parent module on every run). Contract of every function f:
//     real_f(s) == spec_f(s)      (same Option-ness, same remainder pointer+length, same AST value)
// for every input string s of the shape stated per harness. Callees are replaced by their
// specifications (`#[kani::stub]`), which the callee's own obligation licenses.
use super::spec::*;
use super::*;

// ---- uninterpreted XID predicates for the (single) non-ASCII character of an input -------------
static mut XSTART: bool = false;
static mut XCONT: bool = false;
pub(crate) fn xid_start_stub(_c: char) -> bool {
    unsafe { XSTART }
}
pub(crate) fn xid_continue_stub(_c: char) -> bool {
    unsafe { XCONT }
}
fn init_xid() {
    unsafe {
        XSTART = kani::any();
        XCONT = kani::any();
    }
}

// ---- symbolic input strings ----------------------------------------------------------------------
pub(crate) const CAP: usize = 16;

/// `[ASCII prefix, exactly P bytes][optionally ONE arbitrary Unicode scalar value][ASCII suffix, <= S bytes]`
/// (P, S concrete per harness; with `wide == false` the prefix length is symbolic `<= P` instead).
/// Every ASCII byte is an arbitrary 7-bit value. All buffer indices are concrete: the scalar is written
/// right-aligned into a 4-byte window and the string starts inside that window.
fn mk_str(buf: &mut [u8; CAP], p: usize, wide: bool, s_max: usize) -> &str {
    // layout: [.. window of 4 bytes ..][suffix]; prefix bytes are placed immediately before the scalar
    let all: u128 = kani::any();
    kani::assume(all & 0x8080_8080_8080_8080_8080_8080_8080_8080u128 == 0);
    *buf = all.to_le_bytes();
    if !wide {
        let n: usize = kani::any();
        kani::assume(n <= p + s_max);
        return unsafe { core::str::from_utf8_unchecked(&buf[..n]) };
    }
    // window occupies buf[p .. p+4] is wrong for right-alignment with a prefix, so the prefix is copied
    // in front of the scalar per width case (4 cases, concrete indices each).
    let s: usize = kani::any();
    kani::assume(s <= s_max);
    let base = 8usize; // scalar ends at buf[base], suffix is buf[base .. base+s]
    let has: bool = kani::any();
    if !has {
        // pure ASCII: prefix directly before the suffix
        return unsafe { core::str::from_utf8_unchecked(&buf[base - p..base + s]) };
    }
    let c: char = kani::any();
    let mut tmp = [0u8; 4];
    let l = c.encode_utf8(&mut tmp).len();
    let mut pre = [0u8; 4];
    let mut k = 0usize;
    while k < 4 {
        if k < p {
            pre[k] = buf[k];
        }
        k += 1;
    }
    match l {
        1 => {
            buf[base - 1] = tmp[0];
        }
        2 => {
            buf[base - 2] = tmp[0];
            buf[base - 1] = tmp[1];
        }
        3 => {
            buf[base - 3] = tmp[0];
            buf[base - 2] = tmp[1];
            buf[base - 1] = tmp[2];
        }
        _ => {
            buf[base - 4] = tmp[0];
            buf[base - 3] = tmp[1];
            buf[base - 2] = tmp[2];
            buf[base - 1] = tmp[3];
        }
    }
    let start = base - l - p;
    let mut k = 0usize;
    while k < 4 {
        if k < p {
            buf[start + k] = pre[k];
        }
        k += 1;
    }
    unsafe { core::str::from_utf8_unchecked(&buf[start..base + s]) }
}

/// printed only under native playback (Kani turns `eprintln!` into a no-op): the counterexample input
fn report(s: &str) {
    eprintln!("CEX-INPUT {:?}", s);
}

fn same<T: PartialEq>(a: &Option<(&str, T)>, b: &Option<(&str, T)>) -> bool {
    match (a, b) {
        (None, None) => true,
        (Some((ra, ta)), Some((rb, tb))) => ra.as_ptr() == rb.as_ptr() && ra.len() == rb.len() && ta == tb,
        _ => false,
    }
}
fn same_rest(a: &Option<&str>, b: &Option<&str>) -> bool {
    match (a, b) {
        (None, None) => true,
        (Some(ra), Some(rb)) => ra.as_ptr() == rb.as_ptr() && ra.len() == rb.len(),
        _ => false,
    }
}

macro_rules! contract_eq {
    ($(#[$m:meta])* $name:ident, $real:expr, $spec:expr, $p:expr, $w:expr, $s:expr) => {
        $(#[$m])*
        #[kani::proof]
        #[kani::stub(unicode_xid::tables::derived_property::XID_Start, xid_start_stub)]
        #[kani::stub(unicode_xid::tables::derived_property::XID_Continue, xid_continue_stub)]
        fn $name() {
            init_xid();
            let mut buf = [0u8; CAP];
            let s = mk_str(&mut buf, $p, $w, $s);
            report(s);
            let r = $real(s);
            let e = $spec(s);
            kani::cover!(r.is_some(), "accepting input reachable");
            kani::cover!(r.is_none(), "rejecting input reachable");
            assert!(same(&r, &e), "real == spec");
        }
    };
}
macro_rules! contract_eq_rest {
    ($(#[$m:meta])* $name:ident, $real:expr, $spec:expr, $p:expr, $w:expr, $s:expr) => {
        $(#[$m])*
        #[kani::proof]
        fn $name() {
            let mut buf = [0u8; CAP];
            let s = mk_str(&mut buf, $p, $w, $s);
            report(s);
            let r = $real(s);
            let e = $spec(s);
            kani::cover!(r.is_some(), "accepting input reachable");
            kani::cover!(r.is_none(), "rejecting input reachable");
            assert!(same_rest(&r, &e), "real == spec");
        }
    };
}

// ---- level 0: character primitives ---------------------------------------------------------------
contract_eq_rest!(ob_any_char, any_char, spec_any_char, 0, true, L0_TAIL);
contract_eq!(ob_take_any_char, take_any_char, spec_take_any_char, 0, true, L0_TAIL);

#[kani::proof]
fn ob_char() {
    // `char(c)` for EVERY c: Some(rest after c) iff the input starts with c
    let c: char = kani::any();
    let mut buf = [0u8; CAP];
    let s = mk_str(&mut buf, 0, true, L0_TAIL);
    report(s);
    let r = char(c)(s);
    let e = match first(s) {
        Some((d, rest)) if d == c => Some(rest),
        _ => None,
    };
    kani::cover!(r.is_some(), "accepting input reachable");
    assert!(same_rest(&r, &e), "real == spec");
}

#[kani::proof]
fn ob_str2() {
    // `str(lit)` for the two literals the grammar uses it with
    let mut buf = [0u8; CAP];
    let s = mk_str(&mut buf, 3, false, 0);
    report(s);
    let b = s.as_bytes();
    let r1 = str("{{")(s);
    let e1 = if b.len() >= 2 && b[0] == b'{' && b[1] == b'{' { Some(&s[2..]) } else { None };
    assert!(same_rest(&r1, &e1), "str(\"{{\") == spec");
    let r2 = str("x?")(s);
    let e2 = if b.len() >= 2 && b[0] == b'x' && b[1] == b'?' { Some(&s[2..]) } else { None };
    kani::cover!(r2.is_some(), "accepting input reachable");
    assert!(same_rest(&r2, &e2), "str(\"x?\") == spec");
}

#[kani::proof]
fn ob_one_of() {
    let mut buf = [0u8; CAP];
    let s = mk_str(&mut buf, 0, true, L0_TAIL);
    report(s);
    let r = one_of("{}")(s);
    let e = match first(s) {
        Some((d, rest)) if d == '{' || d == '}' => Some(rest),
        _ => None,
    };
    kani::cover!(r.is_some(), "accepting input reachable");
    assert!(same_rest(&r, &e), "real == spec");
}

#[kani::proof]
fn ob_whitespaces() {
    let mut buf = [0u8; CAP];
    let s = mk_str(&mut buf, 1, true, 2);
    report(s);
    let r = whitespaces(s);
    let e = Some(spec_ws(s));
    kani::cover!(r.map(|x| x.len() < s.len()).unwrap_or(false), "some whitespace consumed");
    assert!(same_rest(&r, &e), "real == spec");
}

// ---- level 1 ---------------------------------------------------------------------------------------
contract_eq!(ob_text, text, spec_text, 1, true, L1_TAIL);
contract_eq!(ob_identifier, identifier, spec_identifier, 1, true, L1_TAIL);
contract_eq!(ob_identifier_mid, identifier, spec_identifier, 2, true, 1);
contract_eq!(ob_integer, integer, spec_integer, L1_INT, false, 0);

// ---- level 2 ---------------------------------------------------------------------------------------
contract_eq!(ob_align, align, spec_align, 0, true, 1);
contract_eq!(ob_sign, sign, spec_sign, 0, true, 1);
contract_eq!(
    #[kani::stub(super::whitespaces, spec_ws_opt)]
    ob_type, type_, spec_type, L2_TYPE, true, 1);
contract_eq!(
    #[kani::stub(super::identifier, spec_identifier)]
    #[kani::stub(super::integer, spec_integer)]
    ob_argument, argument, spec_argument, L2, true, 1);
contract_eq!(
    #[kani::stub(super::argument, spec_argument)]
    ob_parameter, parameter, spec_parameter, L2, true, 1);
contract_eq!(
    #[kani::stub(super::parameter, spec_parameter)]
    #[kani::stub(super::integer, spec_integer)]
    ob_count, count, spec_count, L2, true, 1);
contract_eq!(
    #[kani::stub(super::count, spec_count)]
    ob_precision, precision, spec_precision, L2, true, 1);

pub(crate) fn spec_ws_opt(input: &str) -> Option<&str> {
    Some(spec_ws(input))
}

// ---- level 3 ---------------------------------------------------------------------------------------
contract_eq!(
    #[kani::stub(super::align, spec_align)]
    #[kani::stub(super::sign, spec_sign)]
    #[kani::stub(super::count, spec_count)]
    #[kani::stub(super::precision, spec_precision)]
    #[kani::stub(super::type_, spec_type)]
    ob_format_spec, format_spec, spec_format_spec, L3_SPEC, false, 0);
contract_eq!(
    #[kani::stub(super::align, spec_align)]
    #[kani::stub(super::sign, spec_sign)]
    #[kani::stub(super::count, spec_count)]
    #[kani::stub(super::precision, spec_precision)]
    #[kani::stub(super::type_, spec_type)]
    ob_format_spec_wide_fill, format_spec, spec_format_spec, 0, true, L3_SPEC_W);
contract_eq!(
    #[kani::stub(super::argument, spec_argument)]
    #[kani::stub(super::format_spec, spec_format_spec)]
    #[kani::stub(super::whitespaces, spec_ws_opt)]
    ob_format, format, spec_format, L3_FMT, true, 1);
contract_eq!(
    #[kani::stub(super::format, spec_format)]
    ob_maybe_format, maybe_format, spec_maybe_format, L3_FMT, false, 0);

// ---- level 4 ---------------------------------------------------------------------------------------
#[kani::proof]
#[kani::stub(super::maybe_format, spec_maybe_format)]
#[kani::stub(super::text, spec_text)]
fn ob_format_string() {
    let mut buf = [0u8; CAP];
    let s = mk_str(&mut buf, L4, false, 0);
    report(s);
    let r = format_string(s);
    let e = spec_format_string(s);
    kani::cover!(r.is_some(), "accepting input reachable");
    kani::cover!(r.is_none(), "rejecting input reachable");
    kani::cover!(r.as_ref().map(|f| f.formats.len() >= 2).unwrap_or(false), "two placeholders reachable");
    assert!(r == e, "real == spec");
}

// ---- C18: totality of the slicing arithmetic on arbitrary scalars and long digit strings -------------
#[kani::proof]
fn tot_integer_long() {
    // digit strings up to 21 chars: a value beyond usize is `None`, never a panic / overflow
    let mut buf = [0u8; 24];
    let n: usize = kani::any();
    kani::assume(n <= 21);
    let mut i = 0;
    while i < 21 {
        if i < n {
            let d: u8 = kani::any();
            kani::assume(d < 10);
            buf[i] = b'0' + d;
        }
        i += 1;
    }
    let s = unsafe { core::str::from_utf8_unchecked(&buf[..n]) };
    report(s);
    let r = integer(s);
    kani::cover!(n == 21 && r.is_none(), "overflowing literal reachable");
    if let Some((rest, _)) = r {
        assert!(rest.is_empty(), "all digits consumed");
    }
}

// PLAYBACK-INSERTION-POINT
