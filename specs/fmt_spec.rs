// Executable specification of std::fmt's documented literal grammar
// (https://doc.rust-lang.org/std/fmt/index.html#syntax), written from the documentation and from
// experiments against rustc itself (DESIGN.md §2.6 / §5 C03), NOT from derive_more's parser.
//
//   format_string := text [ maybe_format text ] *
//   maybe_format  := '{' '{' | '}' '}' | format
//   format        := '{' [ argument ] [ ':' format_spec ] [ ws ] * '}'
//   argument      := integer | identifier
//   format_spec   := [[fill]align][sign]['#']['0'][width]['.' precision]type
//   fill := character   align := '<' | '^' | '>'   sign := '+' | '-'   width := count
//   precision     := count | '*'
//   type          := '' | '?' | 'x?' | 'X?' | o x X p b e E      (closed list: format_args! rejects other traits)
//   count         := parameter | integer          parameter := argument '$'
//   identifier    := XID_Start XID_Continue* | '_' XID_Continue+
//   ws            := char::is_whitespace            (confirmed: U+2003 accepted, U+200E rejected by rustc)
//   `0` followed by `$` is a width parameter, not the zero flag (std's documented disambiguation).
//
// This file is included as a child module of the (byte-for-byte copied) parser module, so it can name
// the parser's own AST types; it deliberately uses none of the parser's functions.
#![allow(dead_code)]

use super::{
    Align, Alternate, Argument, Count, Format, FormatSpec, FormatString, Precision, Sign, Type,
    ZeroPadding,
};
use unicode_xid::UnicodeXID as XID;

/// first char and the rest
#[inline]
pub(crate) fn first(input: &str) -> Option<(char, &str)> {
    let c = input.chars().next()?;
    Some((c, &input[c.len_utf8()..]))
}

#[inline]
fn eat(input: &str, c: char) -> Option<&str> {
    match first(input) {
        Some((d, rest)) if d == c => Some(rest),
        _ => None,
    }
}

pub(crate) fn spec_any_char(input: &str) -> Option<&str> {
    first(input).map(|(_, r)| r)
}

pub(crate) fn spec_take_any_char(input: &str) -> Option<(&str, char)> {
    first(input).map(|(c, r)| (r, c))
}

/// text := (any char except '{' '}')+
pub(crate) fn spec_text(input: &str) -> Option<(&str, &str)> {
    let mut cur = input;
    while let Some((c, rest)) = first(cur) {
        if c == '{' || c == '}' {
            break;
        }
        cur = rest;
    }
    if cur.len() == input.len() {
        None
    } else {
        Some((cur, &input[..input.len() - cur.len()]))
    }
}

pub(crate) fn spec_identifier(input: &str) -> Option<(&str, &str)> {
    let (c, rest) = first(input)?;
    let mut cur = rest;
    if XID::is_xid_start(c) {
        while let Some((d, r)) = first(cur) {
            if !XID::is_xid_continue(d) {
                break;
            }
            cur = r;
        }
    } else if c == '_' {
        while let Some((d, r)) = first(cur) {
            if !XID::is_xid_continue(d) {
                break;
            }
            cur = r;
        }
        if cur.len() == rest.len() {
            return None; // a lone `_` is not an identifier
        }
    } else {
        return None;
    }
    Some((cur, &input[..input.len() - cur.len()]))
}

/// integer := [0-9]+ ; a value that does not fit `usize` is not an integer (rustc: "integer is too large")
pub(crate) fn spec_integer(input: &str) -> Option<(&str, usize)> {
    let b = input.as_bytes();
    let mut i = 0usize;
    let mut v: usize = 0;
    let mut overflow = false;
    while i < b.len() && b[i] >= b'0' && b[i] <= b'9' {
        match v.checked_mul(10).and_then(|x| x.checked_add((b[i] - b'0') as usize)) {
            Some(x) => v = x,
            None => overflow = true,
        }
        i += 1;
    }
    if i == 0 || overflow {
        None
    } else {
        Some((&input[i..], v))
    }
}

pub(crate) fn spec_argument(input: &str) -> Option<(&str, Argument<'_>)> {
    if let Some((r, id)) = spec_identifier(input) {
        return Some((r, Argument::Identifier(id)));
    }
    spec_integer(input).map(|(r, n)| (r, Argument::Integer(n)))
}

pub(crate) fn spec_parameter(input: &str) -> Option<(&str, Argument<'_>)> {
    let (r, a) = spec_argument(input)?;
    eat(r, '$').map(|r| (r, a))
}

pub(crate) fn spec_count(input: &str) -> Option<(&str, Count<'_>)> {
    if let Some((r, p)) = spec_parameter(input) {
        return Some((r, Count::Parameter(p)));
    }
    spec_integer(input).map(|(r, n)| (r, Count::Integer(n)))
}

pub(crate) fn spec_precision(input: &str) -> Option<(&str, Precision<'_>)> {
    if let Some((r, c)) = spec_count(input) {
        return Some((r, Precision::Count(c)));
    }
    eat(input, '*').map(|r| (r, Precision::Star))
}

pub(crate) fn spec_align(input: &str) -> Option<(&str, Align)> {
    match first(input) {
        Some(('<', r)) => Some((r, Align::Left)),
        Some(('^', r)) => Some((r, Align::Center)),
        Some(('>', r)) => Some((r, Align::Right)),
        _ => None,
    }
}

pub(crate) fn spec_sign(input: &str) -> Option<(&str, Sign)> {
    match first(input) {
        Some(('+', r)) => Some((r, Sign::Plus)),
        Some(('-', r)) => Some((r, Sign::Minus)),
        _ => None,
    }
}

pub(crate) fn spec_ws(input: &str) -> &str {
    let mut cur = input;
    while let Some((c, r)) = first(cur) {
        if !c.is_whitespace() {
            break;
        }
        cur = r;
    }
    cur
}

/// `type`; the empty type (Display) is recognised where the placeholder ends: `[ws]* '}'` follows.
pub(crate) fn spec_type(input: &str) -> Option<(&str, Type)> {
    let b = input.as_bytes();
    if b.len() >= 2 && b[1] == b'?' && (b[0] == b'x' || b[0] == b'X') {
        return Some((&input[2..], if b[0] == b'x' { Type::LowerDebug } else { Type::UpperDebug }));
    }
    if let Some(&c) = b.first() {
        let t = match c {
            b'?' => Some(Type::Debug),
            b'o' => Some(Type::Octal),
            b'x' => Some(Type::LowerHex),
            b'X' => Some(Type::UpperHex),
            b'p' => Some(Type::Pointer),
            b'b' => Some(Type::Binary),
            b'e' => Some(Type::LowerExp),
            b'E' => Some(Type::UpperExp),
            _ => None,
        };
        if let Some(t) = t {
            return Some((&input[1..], t));
        }
    }
    if eat(spec_ws(input), '}').is_some() {
        Some((input, Type::Display))
    } else {
        None
    }
}

pub(crate) fn spec_format_spec(input: &str) -> Option<(&str, FormatSpec<'_>)> {
    let mut cur = input;
    // [[fill]align]: a fill is any character that is directly followed by an alignment
    let mut align = None;
    if let Some((c, r)) = first(cur) {
        if let Some((r2, a)) = spec_align(r) {
            align = Some((Some(c), a));
            cur = r2;
        } else if let Some((r1, a)) = spec_align(cur) {
            align = Some((None, a));
            cur = r1;
        }
    }
    let mut sign = None;
    if let Some((r, s)) = spec_sign(cur) {
        sign = Some(s);
        cur = r;
    }
    let mut alternate = None;
    if let Some(r) = eat(cur, '#') {
        alternate = Some(Alternate);
        cur = r;
    }
    let mut zero_padding = None;
    if let Some(r) = eat(cur, '0') {
        // `0` directly followed by `$` is the width parameter `0$`, not the flag. (A `0` at the very end of
        // the input is not a flag either: a placeholder always continues with at least `}`.)
        if matches!(first(r), Some((c, _)) if c != '$') {
            zero_padding = Some(ZeroPadding);
            cur = r;
        }
    }
    let mut width = None;
    if let Some((r, c)) = spec_count(cur) {
        width = Some(c);
        cur = r;
    }
    let mut precision = None;
    if let Some(r) = eat(cur, '.') {
        let (r, p) = spec_precision(r)?;
        precision = Some(p);
        cur = r;
    }
    let (cur, ty) = spec_type(cur)?;
    Some((cur, FormatSpec { align, sign, alternate, zero_padding, width, precision, ty }))
}

pub(crate) fn spec_format(input: &str) -> Option<(&str, Format<'_>)> {
    let mut cur = eat(input, '{')?;
    let mut arg = None;
    if let Some((r, a)) = spec_argument(cur) {
        arg = Some(a);
        cur = r;
    }
    let mut spec = None;
    if let Some(r) = eat(cur, ':') {
        let (r, s) = spec_format_spec(r)?;
        spec = Some(s);
        cur = r;
    }
    let cur = eat(spec_ws(cur), '}')?;
    Some((cur, Format { arg, spec }))
}

pub(crate) fn spec_maybe_format(input: &str) -> Option<(&str, Option<Format<'_>>)> {
    let b = input.as_bytes();
    if b.len() >= 2 && ((b[0] == b'{' && b[1] == b'{') || (b[0] == b'}' && b[1] == b'}')) {
        return Some((&input[2..], None));
    }
    spec_format(input).map(|(r, f)| (r, Some(f)))
}

pub(crate) fn spec_format_string(input: &str) -> Option<FormatString<'_>> {
    let mut formats = Vec::new();
    let mut cur = input;
    loop {
        if let Some((r, _)) = spec_text(cur) {
            cur = r;
            continue;
        }
        match spec_maybe_format(cur) {
            Some((r, f)) => {
                if let Some(f) = f {
                    formats.push(f);
                }
                cur = r;
            }
            None => break,
        }
    }
    if cur.is_empty() {
        Some(FormatString { formats })
    } else {
        None
    }
}

// ---------------------------------------------------------------------------------------------
// What rustc ACTUALLY accepts as one placeholder (superset of the documented grammar; established by experiments
// against rustc 1.95, DESIGN.md §10.4): whitespace is also skipped between the argument and `:`, and a `.` may be
// followed by no precision. Used for ONE purpose only: a literal that the derive's `format` takes for a single
// placeholder is delegated transparently and never reaches `format_args!`, so there the derive must not accept
// anything rustc rejects (property: "a literal that std rejects is never silently accepted").
pub(crate) fn rustc_accepts_single_placeholder(input: &str) -> bool {
    let Some(mut cur) = eat(input, '{') else { return false };
    if let Some((r, _)) = spec_argument(cur) {
        cur = r;
    }
    cur = spec_ws(cur);
    if let Some(r) = eat(cur, ':') {
        cur = r;
        // [[fill]align]
        if let Some((_, r1)) = first(cur) {
            if let Some((r2, _)) = spec_align(r1) {
                cur = r2;
            } else if let Some((r2, _)) = spec_align(cur) {
                cur = r2;
            }
        }
        if let Some((r, _)) = spec_sign(cur) {
            cur = r;
        }
        if let Some(r) = eat(cur, '#') {
            cur = r;
        }
        if let Some(r) = eat(cur, '0') {
            if eat(r, '$').is_none() {
                cur = r;
            }
        }
        if let Some((r, _)) = spec_count(cur) {
            cur = r;
        }
        if let Some(r) = eat(cur, '.') {
            cur = r;
            if let Some((r, _)) = spec_precision(cur) {
                cur = r;
            }
        }
        // type: known letters only (format_args! rejects unknown traits later, still a compile error)
        let b = cur.as_bytes();
        if b.len() >= 2 && b[1] == b'?' && (b[0] == b'x' || b[0] == b'X') {
            cur = &cur[2..];
        } else if let Some(&c) = b.first() {
            if matches!(c, b'?' | b'o' | b'x' | b'X' | b'p' | b'b' | b'e' | b'E') {
                cur = &cur[1..];
            }
        }
    }
    matches!(eat(spec_ws(cur), '}'), Some(rest) if rest.is_empty())
}

// ---------------------------------------------------------------------------------------------
// placeholder list (what `format_args!` does with the parsed pieces)

#[derive(Clone, Debug, PartialEq, Eq)]
pub(crate) enum SParam {
    Positional(usize),
    Named(String),
}

#[derive(Clone, Debug, PartialEq, Eq)]
pub(crate) struct SPlaceholder {
    pub(crate) arg: SParam,
    pub(crate) has_modifiers: bool,
    pub(crate) trait_name: &'static str,
}

pub(crate) fn spec_trait_name(t: Type) -> &'static str {
    match t {
        Type::Display => "Display",
        Type::Debug | Type::LowerDebug | Type::UpperDebug => "Debug",
        Type::Octal => "Octal",
        Type::LowerHex => "LowerHex",
        Type::UpperHex => "UpperHex",
        Type::Pointer => "Pointer",
        Type::Binary => "Binary",
        Type::LowerExp => "LowerExp",
        Type::UpperExp => "UpperExp",
    }
}

/// std's rule: an omitted argument takes the implicit counter and advances it; explicit arguments do
/// not; a `.*` precision first takes the counter (for the precision) and advances it.
pub(crate) fn spec_placeholders_of(fs: &FormatString<'_>) -> Vec<SPlaceholder> {
    let mut next = 0usize;
    let mut out = Vec::new();
    for f in fs.formats.iter() {
        let mut has_modifiers = false;
        let mut ty = Type::Display;
        if let Some(s) = f.spec {
            if let Some(Precision::Star) = s.precision {
                next += 1;
            }
            has_modifiers = s.align.is_some()
                || s.sign.is_some()
                || s.alternate.is_some()
                || s.zero_padding.is_some()
                || s.width.is_some()
                || s.precision.is_some()
                || matches!(s.ty, Type::LowerDebug | Type::UpperDebug);
            ty = s.ty;
        }
        let arg = match f.arg {
            Some(Argument::Integer(i)) => SParam::Positional(i),
            Some(Argument::Identifier(n)) => SParam::Named(n.to_owned()),
            None => {
                next += 1;
                SParam::Positional(next - 1)
            }
        };
        out.push(SPlaceholder { arg, has_modifiers, trait_name: spec_trait_name(ty) });
    }
    out
}

pub(crate) fn spec_placeholders(s: &str) -> Vec<SPlaceholder> {
    match spec_format_string(s) {
        Some(fs) => spec_placeholders_of(&fs),
        None => Vec::new(),
    }
}
