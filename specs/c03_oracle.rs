// Native comparison of the REAL functions (byte-for-byte copy of /repo's parser, extracted
// `Placeholder::parse_fmt_string`) against the executable specification. Used for
//   * replaying verifier counterexamples against the real code at the level the property speaks about
//     (whole literals): `oracle lift <string>`
//   * the bounded stand-in for `format_string` / `parse_fmt_string`, which Kani cannot discharge
//     (Vec / iterator machinery exhausts memory): `oracle sweep <maxlen>`
//   * `oracle lit <string>..` : check single literals (used by `./check C03 --replay`).
// Top-level contract (taken from the property statement, one-directional):
//     spec accepts s  ==>  real(s) == spec(s)        for format_string, format and the placeholder list.
#![allow(dead_code)]
use crate::parsing_x as real;
use crate::parsing_x::spec;
use crate::placeholder_x;

fn ph_spec(s: &str) -> Vec<(Result<usize, String>, bool, &'static str)> {
    spec::spec_placeholders(s)
        .into_iter()
        .map(|p| {
            (
                match p.arg {
                    spec::SParam::Positional(i) => Ok(i),
                    spec::SParam::Named(n) => Err(n),
                },
                p.has_modifiers,
                p.trait_name,
            )
        })
        .collect()
}

// ---- watchdog: "in bounded time" (C18) -------------------------------------------------------------------------
static TICK: std::sync::atomic::AtomicU64 = std::sync::atomic::AtomicU64::new(0);
static CURRENT: std::sync::Mutex<String> = std::sync::Mutex::new(String::new());
static QUIET: std::sync::atomic::AtomicBool = std::sync::atomic::AtomicBool::new(false);

fn note_current(s: &str) {
    if let Ok(mut c) = CURRENT.lock() {
        c.clear();
        // long stress literals: keep the head only
        c.push_str(&s.chars().take(60).collect::<String>());
    }
    TICK.fetch_add(1, std::sync::atomic::Ordering::Relaxed);
}

/// if one literal keeps the parser busy for more than `secs` seconds the process reports it and exits with status 1
fn start_watchdog(secs: u64) {
    std::thread::spawn(move || {
        let mut last = u64::MAX;
        let mut same = 0u64;
        loop {
            std::thread::sleep(std::time::Duration::from_secs(1));
            if QUIET.load(std::sync::atomic::Ordering::Relaxed) {
                same = 0;
                continue;
            }
            let t = TICK.load(std::sync::atomic::Ordering::Relaxed);
            if t == last {
                same += 1;
            } else {
                same = 0;
                last = t;
            }
            if same >= secs {
                let cur = CURRENT.lock().map(|c| c.clone()).unwrap_or_default();
                println!("MISMATCH PANIC-like: the parser did not return within {secs} s while parsing {cur:?} (non-termination / unbounded time, C18)");
                std::process::exit(1);
            }
        }
    });
}

/// returns the list of contract violations for one literal (empty = holds)
pub fn check_literal(s: &str) -> Vec<String> {
    note_current(s);
    let mut out = Vec::new();
    let owned = s.to_owned();
    let r = std::panic::catch_unwind(move || {
        let s = owned.as_str();
        let mut out = Vec::new();
        let e = spec::spec_format_string(s);
        let r = real::format_string(s);
        if let Some(e) = &e {
            if r.as_ref() != Some(e) {
                out.push(format!("format_string({s:?}): std::fmt accepts it as {e:?}, the derive's parser gives {r:?}"));
            }
            let pr = placeholder_x::x_parse(s);
            let pe = ph_spec(s);
            if pr != pe {
                out.push(format!("placeholders of {s:?}: std::fmt: {pe:?}, derive: {pr:?}"));
            }
        }
        let ef = spec::spec_format(s);
        let rf = real::format(s);
        if let Some((rest, f)) = &rf {
            if rest.is_empty() && !spec::rustc_accepts_single_placeholder(s) {
                out.push(format!("format({s:?}): the derive takes the whole literal for ONE placeholder ({f:?}) and may delegate transparently without ever handing it to format_args!, but rustc rejects this literal: silently accepted"));
            }
        }
        if let Some(ef) = &ef {
            if rf.as_ref() != Some(ef) {
                out.push(format!("format({s:?}) [single placeholder, used for transparency]: std::fmt: {ef:?}, derive: {rf:?}"));
            }
        }
        out
    });
    match r {
        Ok(v) => out.extend(v),
        Err(_) => out.push(format!("PANIC while parsing {s:?} (totality, C18)")),
    }
    out
}

/// exact (two-directional) agreement, informational
pub fn exact_equal(s: &str) -> bool {
    let o = s.to_owned();
    std::panic::catch_unwind(move || real::format_string(&o) == spec::spec_format_string(&o) && real::format(&o) == spec::spec_format(&o))
        .unwrap_or(false)
}

const CONTEXTS: &[(&str, &str)] = &[
    ("", ""), ("{", "}"), ("{:", "}"), ("{0:", "}"), ("{a:", "}"), ("{:", " }"), ("{:.", "}"), ("{:1$.", "}"), ("{:>", "}"), ("{:#", "}"),
    ("{:+#0", "}"), ("{:", "x}"), ("{:", "?}"), ("{} {", "}"), ("{:.*} {", "}"), ("{", "} {}"), ("a{", "}b"), ("{{{", "}}}"), ("{:", "$}"),
    ("{:", "$x}"), ("{", ":}"), ("{", ":x?}"), ("{:0", "}"), ("{:-<", "}"),
];

/// embed a function-level counterexample into whole literals and look for a top-level violation
pub fn lift(cex: &str) -> Vec<String> {
    let mut found = Vec::new();
    let mut cands: Vec<String> = Vec::new();
    let chars: Vec<(usize, char)> = cex.char_indices().collect();
    let mut cuts = vec![0usize];
    for (i, c) in &chars {
        cuts.push(i + c.len_utf8());
    }
    for &a in &cuts {
        for &b in &cuts {
            if a <= b {
                for (pre, post) in CONTEXTS {
                    cands.push(format!("{pre}{}{post}", &cex[a..b]));
                }
            }
        }
    }
    cands.sort();
    cands.dedup();
    for c in cands {
        for v in check_literal(&c) {
            found.push(v);
            if found.len() >= 5 {
                return found;
            }
        }
    }
    found
}

pub const ALPHABET: &[&str] = &[
    "{", "}", ":", "<", "^", ">", "+", "-", "#", "0", "1", "$", ".", "*", "?", "x", "X", "o", "e", "a", "_", " ", "\u{e9}", "\u{2003}",
    // characters on which Unicode's XID classes and std's alphabetic / alphanumeric classes disagree:
    // U+24D0 (Alphabetic, not XID_Start), U+00B2 (numeric, not XID_Continue), U+00B7 and U+0301 (XID_Continue, not alphanumeric)
    "\u{24d0}", "\u{b2}", "\u{b7}", "\u{301}",
];

/// every string over ALPHABET of at most `maxlen` symbols: returns (strings checked, accepted by spec, violations)
pub fn sweep(maxlen: usize, limit_report: usize) -> (u64, u64, u64, Vec<String>) {
    let mut n = 0u64;
    let mut acc = 0u64;
    let mut inexact = 0u64;
    let mut viol = Vec::new();
    let mut idx: Vec<usize> = Vec::new();
    let mut s = String::new();
    loop {
        s.clear();
        for &i in &idx {
            s.push_str(ALPHABET[i]);
        }
        n += 1;
        if spec::spec_format_string(&s).is_some() {
            acc += 1;
        }
        let v = check_literal(&s);
        if !v.is_empty() && viol.len() < limit_report {
            viol.extend(v);
        }
        if !exact_equal(&s) {
            inexact += 1;
        }
        // next index vector (odometer with growing length)
        let mut k = idx.len();
        loop {
            if k == 0 {
                idx.push(0);
                for x in idx.iter_mut() {
                    *x = 0;
                }
                break;
            }
            k -= 1;
            if idx[k] + 1 < ALPHABET.len() {
                idx[k] += 1;
                for x in idx[k + 1..].iter_mut() {
                    *x = 0;
                }
                break;
            }
        }
        if idx.len() > maxlen {
            break;
        }
    }
    (n, acc, inexact, viol)
}

/// very long literals (totality: no stack exhaustion / quadratic blow-up): each shape repeated `n` times, parsed on a thread
/// with rustc's default 8 MiB stack. The caller runs this mode from an UNOPTIMISED build of the oracle, as cargo builds proc-macros (opt-level 0): a recursive implementation
/// overflows and kills the process (detected by the caller through the exit status), an iterative one does not care.
pub fn stress(n: usize) -> Vec<String> {
    let shapes: &[&str] = &["{{", "}}", "{}", "a{}", "{0:x}", "{a}", "{:>8}", " ", "\u{e9}", "{{{}}}", "9", "{:9"];
    let mut out = Vec::new();
    for sh in shapes {
        let lit: String = sh.repeat(n);
        note_current(&lit);
        let t0 = std::time::Instant::now();
        let l2 = lit.clone();
        let h = std::thread::Builder::new().stack_size(8 * 1024 * 1024).spawn(move || {
            let a = real::format_string(&l2).map(|f| f.formats.len());
            let b = spec::spec_format_string(&l2).map(|f| f.formats.len());
            let c = placeholder_x::x_parse(&l2).len();
            (a, b, c)
        });
        match h.map(|h| h.join()) {
            Ok(Ok((a, b, _c))) => {
                if b.is_some() && a != b {
                    out.push(format!("long literal {sh:?} x {n}: std::fmt accepts it with {b:?} placeholders, derive gives {a:?}"));
                }
            }
            _ => out.push(format!("PANIC while parsing the long literal {sh:?} x {n} (totality, C18)")),
        }
        let dt = t0.elapsed().as_secs_f64();
        if dt > 20.0 {
            out.push(format!("PANIC-like: parsing {sh:?} x {n} took {dt:.1} s (bounded time, C18)"));
        }
    }
    out
}

pub fn oracle_main() -> i32 {
    let args: Vec<String> = std::env::args().collect();
    std::panic::set_hook(Box::new(|_| {}));
    start_watchdog(if args.get(1).map(|s| s.as_str()) == Some("stress") { 25 } else { 6 });
    match args.get(1).map(|s| s.as_str()) {
        Some("lit") => {
            let mut bad = 0;
            for s in &args[2..] {
                let v = check_literal(s);
                for m in &v {
                    println!("MISMATCH {m}");
                }
                if v.is_empty() {
                    println!("OK {s:?} exact_equal={}", exact_equal(s));
                } else {
                    bad += 1;
                }
            }
            if bad > 0 { 1 } else { 0 }
        }
        Some("lift") => {
            let mut bad = 0;
            for s in &args[2..] {
                for m in lift(s) {
                    println!("MISMATCH {m}");
                    bad += 1;
                }
            }
            if bad > 0 { 1 } else { 0 }
        }
        Some("sweep") => {
            let l: usize = args.get(2).and_then(|x| x.parse().ok()).unwrap_or(4);
            let (n, acc, inexact, viol) = sweep(l, 10);
            println!("SWEEP strings={n} accepted_by_spec={acc} not_exactly_equal={inexact} violations={}", viol.len());
            for m in &viol {
                println!("MISMATCH {m}");
            }
            if viol.is_empty() { 0 } else { 1 }
        }
        Some("stress") => {
            let n: usize = args.get(2).and_then(|x| x.parse().ok()).unwrap_or(50_000);
            let v = stress(n);
            println!("STRESS shapes=12 repeat={n} violations={}", v.len());
            for m in &v {
                println!("MISMATCH {m}");
            }
            if v.is_empty() { 0 } else { 1 }
        }
        _ => {
            eprintln!("usage: oracle lit <s>.. | lift <s>.. | sweep <maxlen> | stress <n>");
            2
        }
    }
}
