// Proof harnesses for `Placeholder::parse_fmt_string` (extracted by item name from /repo/impl/src/fmt/mod.rs).
// The parser `parsing::format_string` is replaced by a generator of ARBITRARY parser outputs (<= 2 formats, every
// combination of argument kind, `.*`, `$` parameters, flags and type): the contract is std's counter rule
// `spec_placeholders_of`, for every possible parser output rather than for strings.
use super::*;
use crate::parsing_x::spec::{spec_placeholders_of, SParam};
use crate::parsing_x::{Align, Alternate, Argument, Count, Format, FormatSpec, FormatString, Precision, Sign, Type, ZeroPadding};

static mut GEN: Option<FormatString<'static>> = None;

pub(crate) fn gen_format_string(_s: &str) -> Option<FormatString<'static>> {
    #[allow(static_mut_refs)]
    unsafe {
        GEN.clone()
    }
}

const NAMES: &str = "ab";
fn nd_name() -> &'static str {
    if kani::any() {
        &NAMES[..1]
    } else {
        &NAMES[..2]
    }
}
fn nd_argument() -> Argument<'static> {
    if kani::any() {
        Argument::Integer(kani::any())
    } else {
        Argument::Identifier(nd_name())
    }
}
fn nd_count() -> Count<'static> {
    if kani::any() {
        Count::Integer(kani::any())
    } else {
        Count::Parameter(nd_argument())
    }
}
fn nd_type() -> Type {
    let x: u8 = kani::any();
    match x % 11 {
        0 => Type::Display,
        1 => Type::Debug,
        2 => Type::LowerDebug,
        3 => Type::UpperDebug,
        4 => Type::Octal,
        5 => Type::LowerHex,
        6 => Type::UpperHex,
        7 => Type::Pointer,
        8 => Type::Binary,
        9 => Type::LowerExp,
        _ => Type::UpperExp,
    }
}
fn nd_spec() -> FormatSpec<'static> {
    FormatSpec {
        align: if kani::any() { Some((if kani::any() { Some(kani::any()) } else { None }, if kani::any() { Align::Left } else { Align::Right })) } else { None },
        sign: if kani::any() { Some(if kani::any() { Sign::Plus } else { Sign::Minus }) } else { None },
        alternate: if kani::any() { Some(Alternate) } else { None },
        zero_padding: if kani::any() { Some(ZeroPadding) } else { None },
        width: if kani::any() { Some(nd_count()) } else { None },
        precision: if kani::any() { Some(if kani::any() { Precision::Star } else { Precision::Count(nd_count()) }) } else { None },
        ty: nd_type(),
    }
}
fn nd_format() -> Format<'static> {
    Format {
        arg: if kani::any() { Some(nd_argument()) } else { None },
        spec: if kani::any() { Some(nd_spec()) } else { None },
    }
}

fn same_ph(r: &Placeholder, e: &crate::parsing_x::spec::SPlaceholder) -> bool {
    let arg_ok = match (&r.arg, &e.arg) {
        (Parameter::Positional(a), SParam::Positional(b)) => a == b,
        (Parameter::Named(a), SParam::Named(b)) => a.len() == b.len() && a.as_bytes() == b.as_bytes(),
        _ => false,
    };
    arg_ok && r.has_modifiers == e.has_modifiers && tn_code(r.trait_name) == tn_code(e.trait_name)
}
/// loop-free fingerprint (length, first byte, last byte): pairwise distinct for the nine trait names; the full
/// byte-wise comparison of the table is `ob_type_tables`
fn tn_code(s: &str) -> u32 {
    let b = s.as_bytes();
    if b.is_empty() {
        return 0;
    }
    ((b.len() as u32) << 16) | ((b[0] as u32) << 8) | (b[b.len() - 1] as u32)
}

/// only what can influence the implicit counter: argument kind and the kind of precision
fn nd_format_counter_relevant() -> Format<'static> {
    let arg = match kani::any::<u8>() % 3 {
        0 => None,
        1 => Some(Argument::Integer(kani::any())),
        _ => Some(Argument::Identifier(&NAMES[..1])),
    };
    let spec = match kani::any::<u8>() % 4 {
        0 => None,
        k => Some(FormatSpec {
            align: None,
            sign: None,
            alternate: None,
            zero_padding: None,
            width: None,
            precision: match k {
                1 => None,
                2 => Some(Precision::Star),
                _ => Some(Precision::Count(Count::Integer(kani::any()))),
            },
            ty: if kani::any() { Type::Display } else { Type::LowerHex },
        }),
    };
    Format { arg, spec }
}

#[kani::proof]
#[kani::unwind(3)]
#[kani::stub(crate::parsing_x::format_string, gen_format_string)]
fn ob_parse_fmt_string_one() {
    // ONE placeholder, every parser output: argument / has_modifiers / trait mapping and the `.*` rule for the first one
    let f = nd_format();
    let mut formats = Vec::with_capacity(1);
    formats.push(f);
    let fs = FormatString { formats };
    unsafe {
        GEN = Some(fs.clone());
    }
    let r = Placeholder::parse_fmt_string("x");
    let e = spec_placeholders_of(&fs);
    assert!(r.len() == 1 && e.len() == 1, "one placeholder");
    kani::cover!(matches!(r[0].arg, Parameter::Positional(1)), "implicit argument after .* reachable");
    assert!(same_ph(&r[0], &e[0]), "placeholder 0 == spec");
}

#[kani::proof]
#[kani::unwind(4)]
#[kani::stub(crate::parsing_x::format_string, gen_format_string)]
fn ob_parse_fmt_string_counter() {
    // TWO placeholders, every combination of what influences std's implicit positional counter
    let mut formats = Vec::with_capacity(2);
    formats.push(nd_format_counter_relevant());
    formats.push(nd_format_counter_relevant());
    let fs = FormatString { formats };
    unsafe {
        GEN = Some(fs.clone());
    }
    let r = Placeholder::parse_fmt_string("x");
    let e = spec_placeholders_of(&fs);
    assert!(r.len() == 2 && e.len() == 2, "two placeholders");
    kani::cover!(matches!(r[1].arg, Parameter::Positional(3)), "second implicit argument after two .* reachable");
    assert!(same_ph(&r[0], &e[0]), "placeholder 0 == spec");
    assert!(same_ph(&r[1], &e[1]), "placeholder 1 == spec");
}

#[kani::proof]
#[kani::unwind(4)]
#[kani::stub(crate::parsing_x::format_string, gen_format_string)]
fn ob_parse_fmt_string_rejected() {
    // a literal the parser rejects yields no placeholders
    unsafe {
        GEN = None;
    }
    let r = Placeholder::parse_fmt_string("x");
    assert!(r.is_empty(), "no placeholders for a rejected literal");
}

#[kani::proof]
#[kani::unwind(10)]
fn ob_type_tables() {
    // Type::trait_name / Type::is_trivial against the documented table, exhaustively
    let t = nd_type();
    let name = t.trait_name();
    let e = crate::parsing_x::spec::spec_trait_name(t);
    assert!(name.len() == e.len() && name.as_bytes() == e.as_bytes(), "trait_name == documented table");
    assert!(t.is_trivial() == !matches!(t, Type::LowerDebug | Type::UpperDebug), "only x? / X? are non-trivial");
}

// PLAYBACK-INSERTION-POINT
