"""./check --setup : verify that the offline tool chain is present. Nothing is downloaded;
build caches under /verif/target are (re)created lazily by each check."""
import os
import shutil
import subprocess
import sys

from . import core


def run():
    ok = True
    for tool in ("cargo", "cargo-kani", "cbmc"):
        if not shutil.which(tool):
            print("missing tool: %s" % tool, file=sys.stderr)
            ok = False
    rc, out, _ = core.sh(["cargo", "kani", "--version"])
    print(out.strip())
    if rc != 0:
        ok = False
    for d in ("harness", "target", "evidence", "replay"):
        os.makedirs(os.path.join(core.VERIF, d), exist_ok=True)
    return 0 if ok else 2
