"""Shared probe types, literal model and harness text for the formatting properties C05, C02, C07.

What is here
  * COMMON            Rust source of `src/common.rs`: the byte sink, the `Probe` field type that implements EVERY fmt
                      trait by writing a fixed-width record of (trait letter, tag, observable Formatter state), the
                      symbolic `FormattingOptions`, `run`.
  * PH / Lit / Arg    a structured model of a `#[<trait>("literal", args..)]` attribute. The literal's text is RENDERED from
                      the structure, so what the generator knows about a literal (one bare placeholder? which names? does
                      it mention `_variant`?) is known by construction -- nothing here parses format strings and nothing
                      is taken from impl/src/fmt.
  * Field / Variant / TypeDef   struct / enum definitions, their Rust text, constructors with symbolic field values.
  * reference builders         the Rust text of the oracle: `format_args!` on the same literal with every field bound under
                      its documented name, `<Field as Trait>::fmt`, `write_str(name)`.
  * transparent()     the if-and-only-if of property C05, written from the property sentence.
  * mentions_variant()/rename()  the documented rules of C07 / `rename_all`.
  * program()         assembles one Program (module text + harness list).

Sink / cost notes (measured with Kani 0.68, CBMC 6.11 on this box)
  * `Sink::write_str` copies with a loop bounded by the constant MAXP (16): std's `fmt::write` tests `Arguments::as_str()`
    through a pointer-to-integer cast that CBMC cannot fold, so every `write_fmt` carries one infeasible call of `write_str`
    with a non-constant length; an unbounded loop there is unwound up to the global bound (100 => 300 k steps, minutes).
    With the constant bound the harnesses need no global unwind at all for the literal pieces (all real lengths are constant).
  * the comparison of two sinks is loop-free (12 u64 words); bytes beyond `len` are never written, so `len` equal and all
    words equal <=> the written prefixes are equal.
  * `copy_from_slice` instead of the loop was 4x slower (symbolic-offset byte_update, 2.3 M SAT variables for a 1-variant enum).
"""
import re

from vlib.core import Program, Harness

REC = 16          # bytes of one probe record
CAP = 96          # sink capacity
MAXP = 16         # longest piece one write_str may carry (probe record; literal text pieces are kept <= MAXP by the generator)

# ----------------------------------------------------------------------------------------------------
# traits
# ----------------------------------------------------------------------------------------------------
DISPLAY_LIKE = ["Display", "Binary", "Octal", "LowerHex", "UpperHex", "LowerExp", "UpperExp", "Pointer"]
TRAITS = DISPLAY_LIKE + ["Debug"]
TY = {"Display": "", "Debug": "?", "Binary": "b", "Octal": "o", "LowerHex": "x", "UpperHex": "X", "LowerExp": "e",
      "UpperExp": "E", "Pointer": "p"}
TRAIT_OF_TY = dict((v, k) for k, v in TY.items())
TRAIT_OF_TY.update({"x?": "Debug", "X?": "Debug"})
ATTR = {"Display": "display", "Debug": "debug", "Binary": "binary", "Octal": "octal", "LowerHex": "lower_hex",
        "UpperHex": "upper_hex", "LowerExp": "lower_exp", "UpperExp": "upper_exp", "Pointer": "pointer"}
LETTER = {"Display": "D", "Debug": "?", "Binary": "b", "Octal": "o", "LowerHex": "x", "UpperHex": "X", "LowerExp": "e",
          "UpperExp": "E", "Pointer": "p"}
SHORT = {"Display": "disp", "Debug": "dbg", "Binary": "bin", "Octal": "oct", "LowerHex": "lhex", "UpperHex": "uhex",
         "LowerExp": "lexp", "UpperExp": "uexp", "Pointer": "ptr"}

# ----------------------------------------------------------------------------------------------------
# common.rs
# ----------------------------------------------------------------------------------------------------
COMMON = r'''
pub use core::fmt;
pub use core::fmt::{Alignment, DebugAsHex, FormattingOptions, Sign, Write as _};

pub const CAP: usize = %(CAP)d;
/// longest piece a single `write_str` may carry (a probe record; the generator keeps literal text pieces shorter)
pub const MAXP: usize = %(MAXP)d;

/// Output capture: fixed-size byte sink. Bytes at positions >= len are never written (stay 0).
#[repr(C, align(8))]
pub struct Sink { pub buf: [u8; CAP], pub len: usize, pub overflow: bool }
impl Sink {
    pub fn new() -> Self { Sink { buf: [0; CAP], len: 0, overflow: false } }
    /// byte-for-byte equality of what was written, and nothing was lost
    pub fn same(&self, o: &Sink) -> bool {
        if self.overflow || o.overflow || self.len != o.len { return false; }
        let a: &[u64; CAP / 8] = unsafe { &*(self.buf.as_ptr() as *const [u64; CAP / 8]) };
        let b: &[u64; CAP / 8] = unsafe { &*(o.buf.as_ptr() as *const [u64; CAP / 8]) };
        %(WORDS)s
    }
}
impl fmt::Write for Sink {
    fn write_str(&mut self, s: &str) -> fmt::Result {
        let b = s.as_bytes();
        let n = b.len();
        if n <= MAXP && n <= CAP - self.len {
            let mut i = 0;
            while i < n && i < MAXP { self.buf[self.len + i] = b[i]; i += 1; }
            self.len += n;
        } else {
            self.overflow = true;
        }
        Ok(())
    }
}

/// Probe field type. Every fmt trait writes one fixed-width record:
/// trait letter, tag (2), fill (3 x 7 bit), align, flags (sign +, sign -, #, 0, debug-hex), width (flag + 3), precision (flag + 3).
/// So "formatted under trait T with exactly these flags" is observable as byte equality.
#[derive(Clone, Copy)]
pub struct Probe(pub u8);
pub const REC: usize = %(REC)d;
fn hexd(n: u8) -> u8 { b'a' + (n & 15) }
pub fn record(letter: u8, tag: u8, f: &fmt::Formatter<'_>) -> [u8; REC] {
    let fill = f.fill() as u32;
    let al = match f.align() { None => b'n', Some(Alignment::Left) => b'<', Some(Alignment::Right) => b'>', Some(Alignment::Center) => b'^' };
    let dh = match f.options().get_debug_as_hex() { None => 0u8, Some(DebugAsHex::Lower) => 1, Some(DebugAsHex::Upper) => 2 };
    let flags = 0x40 | (f.sign_plus() as u8) | ((f.sign_minus() as u8) << 1) | ((f.alternate() as u8) << 2)
        | ((f.sign_aware_zero_pad() as u8) << 3) | (dh << 4);
    let (wf, w) = match f.width() { None => (b'-', 0u32), Some(w) => (b'w', w as u32) };
    let (pf, p) = match f.precision() { None => (b'-', 0u32), Some(p) => (b'.', p as u32) };
    [letter, hexd(tag >> 4), hexd(tag),
     (fill & 0x7f) as u8, ((fill >> 7) & 0x7f) as u8, ((fill >> 14) & 0x7f) as u8,
     al, flags,
     wf, (w & 0x7f) as u8, ((w >> 7) & 0x7f) as u8, ((w >> 14) & 0x7f) as u8,
     pf, (p & 0x7f) as u8, ((p >> 7) & 0x7f) as u8, ((p >> 14) & 0x7f) as u8]
}
macro_rules! probe_impl { ($($tr:ident $l:literal),*) => { $(
    impl fmt::$tr for Probe {
        fn fmt(&self, f: &mut fmt::Formatter<'_>) -> fmt::Result {
            let r = record($l, self.0, f);
            // 7-bit bytes only: valid UTF-8 by construction (never core::str::from_utf8, DESIGN 2.4)
            f.write_str(unsafe { core::str::from_utf8_unchecked(&r) })
        }
    } )* } }
probe_impl!(Display b'D', Debug b'?', Binary b'b', Octal b'o', LowerHex b'x', UpperHex b'X', LowerExp b'e', UpperExp b'E', Pointer b'p');
impl Probe {
    /// a different probe: an argument expression `field.twin()` that loses its method call is visible
    pub fn twin(&self) -> Probe { Probe(self.0 ^ 0x5a) }
}
pub const K7: Probe = Probe(0x37);
pub static B0: u8 = 11;
pub static B1: u8 = 12;

/// run `g` against a fresh sink under formatter options `o`
pub fn run(o: FormattingOptions, g: impl FnOnce(&mut fmt::Formatter<'_>) -> fmt::Result) -> (Sink, bool) {
    let mut s = Sink::new();
    let ok = { let mut f = o.create_formatter(&mut s); g(&mut f).is_ok() };
    (s, ok)
}
pub fn agree(a: &(Sink, bool), b: &(Sink, bool)) -> bool { a.1 == b.1 && a.0.same(&b.0) }

/// every formatter state a caller can set: fill any scalar, 4 alignments, 3 signs, `#`, `0`, width / precision any Option<u16>, debug-hex
#[cfg(kani)]
pub fn any_options() -> FormattingOptions {
    let mut o = FormattingOptions::new();
    let fill: char = kani::any();
    let align = match kani::any::<u8>() & 3 { 0 => None, 1 => Some(Alignment::Left), 2 => Some(Alignment::Center), _ => Some(Alignment::Right) };
    let sign = match kani::any::<u8>() %% 3 { 0 => None, 1 => Some(Sign::Plus), _ => Some(Sign::Minus) };
    let dh = match kani::any::<u8>() %% 3 { 0 => None, 1 => Some(DebugAsHex::Lower), _ => Some(DebugAsHex::Upper) };
    let w: Option<u16> = kani::any();
    let p: Option<u16> = kani::any();
    o.fill(fill).align(align).sign(sign).alternate(kani::any()).sign_aware_zero_pad(kani::any()).width(w).precision(p).debug_as_hex(dh);
    o
}
#[cfg(kani)]
pub fn any_probe() -> Probe { Probe(kani::any()) }
/// a width / precision argument: any value a `u8` can hold (format_args! panics above u16::MAX; the record shows 21 bits)
#[cfg(kani)]
pub fn any_count() -> usize { kani::any::<u8>() as usize }
''' % dict(CAP=CAP, MAXP=MAXP, REC=REC, WORDS=" && ".join("a[%d] == b[%d]" % (i, i) for i in range(CAP // 8)))

CRATE_ATTRS = "#![feature(formatting_options)]"


# ----------------------------------------------------------------------------------------------------
# the literal model
# ----------------------------------------------------------------------------------------------------
class PH:
    """one `{...}` placeholder. arg: None (implicit) | int | str (name).
    width: None | int | ("arg", int|str);  prec: None | int | ("arg", int|str) | "*";  ws: whitespace before `}`"""

    def __init__(self, arg=None, ty="", fill=None, align=None, sign=None, alt=False, zero=False, width=None, prec=None, ws=""):
        self.arg, self.ty, self.fill, self.align, self.sign = arg, ty, fill, align, sign
        self.alt, self.zero, self.width, self.prec, self.ws = alt, zero, width, prec, ws

    def spec(self):
        s = ""
        if self.align:
            s += (self.fill or "") + self.align
        s += self.sign or ""
        s += "#" if self.alt else ""
        s += "0" if self.zero else ""
        if self.width is not None:
            s += str(self.width) if isinstance(self.width, int) else "%s$" % self.width[1]
        if self.prec is not None:
            s += "." + ("*" if self.prec == "*" else str(self.prec) if isinstance(self.prec, int) else "%s$" % self.prec[1])
        return s + self.ty

    def text(self):
        a = "" if self.arg is None else str(self.arg)
        sp = self.spec()
        return "{" + a + (":" + sp if sp else "") + self.ws + "}"

    def has_modifier(self):
        """any of fill, alignment, sign, `#`, `0`, width, precision"""
        return bool(self.align or self.sign or self.alt or self.zero or self.width is not None or self.prec is not None)

    def bare(self):
        """property C05: no fill, alignment, sign, `#`, `0`, width, precision or `x?`/`X?`"""
        return not self.has_modifier() and self.ty not in ("x?", "X?")

    def trait(self):
        return TRAIT_OF_TY[self.ty]

    def names(self):
        out = [self.arg] if isinstance(self.arg, str) else []
        for c in (self.width, self.prec):
            if isinstance(c, tuple) and isinstance(c[1], str):
                out.append(c[1])
        return out


class Lit:
    """parts: str (plain text, braces are escaped when rendered) | PH"""

    def __init__(self, *parts):
        self.parts = list(parts)
        for p in self.parts:
            if isinstance(p, str):
                assert '"' not in p and "\\" not in p and len(p.encode()) <= MAXP, p

    def text(self):
        return "".join(p.text() if isinstance(p, PH) else p.replace("{", "{{").replace("}", "}}") for p in self.parts)

    def phs(self):
        return [p for p in self.parts if isinstance(p, PH)]

    def names(self):
        out = []
        for p in self.phs():
            for n in p.names():
                if n not in out:
                    out.append(n)
        return out

    def text_len(self):
        return sum(len(p.encode()) for p in self.parts if isinstance(p, str))


class Arg:
    def __init__(self, expr, alias=None):
        self.expr, self.alias = expr, alias

    def text(self):
        return ("%s = " % self.alias if self.alias else "") + self.expr


class Attr:
    """`#[<attr>("literal", args..)]`"""

    def __init__(self, lit, args=()):
        self.lit = lit if isinstance(lit, Lit) else Lit(*lit)
        self.args = [a if isinstance(a, Arg) else Arg(a) for a in args]

    def inner(self):
        return ", ".join(['"%s"' % self.lit.text()] + [a.text() for a in self.args])

    def aliases(self):
        return [a.alias for a in self.args if a.alias]


# ----------------------------------------------------------------------------------------------------
# type definitions
# ----------------------------------------------------------------------------------------------------
# "A" / "B": a type parameter of a generic type definition (instantiated with Probe by the `pub type T = TG<Probe, ..>` alias)
FIELD_RUST = {"probe": "Probe", "refu8": "&'static u8", "usize": "usize", "A": "A", "B": "B"}
FIELD_VALUE = {"probe": "any_probe()", "refu8": "if kani::any() { &B0 } else { &B1 }", "usize": "any_count()", "A": "any_probe()", "B": "any_probe()"}


class Field:
    def __init__(self, name=None, ty="probe"):
        self.name, self.ty = name, ty          # name: None (positional) or the Rust identifier as written (`x`, `r#type`)


class Variant:
    """a struct body or an enum variant. kind: unit | tuple | named"""

    def __init__(self, name, fields=(), kind=None, attr=None, rename_all=None, extra=()):
        self.name = name
        # extra: further `#[<attr>(..)]` attributes of the item, [("first" | "last", inner text)]: written before / after the
        # rename_all and format attributes (e.g. ("last", "bound(Probe: Clone)"))
        self.extra = list(extra)
        # a field is given as Field, as a name (named probe field) or as None (positional probe field)
        self.fields = [f if isinstance(f, Field) else Field(f) for f in fields]
        self.kind = kind or ("unit" if not self.fields else "named" if self.fields[0].name else "tuple")
        self.attr = attr                        # Attr or None
        self.rename_all = rename_all

    def binder(self, i):
        f = self.fields[i]
        return f.name if f.name else "_%d" % i

    def lit_name(self, i):
        """the name the field has inside a format literal (raw identifiers lose `r#`)"""
        b = self.binder(i)
        return b[2:] if b.startswith("r#") else b

    def member(self, i):
        f = self.fields[i]
        return f.name if f.name else str(i)

    def body(self, vis=""):
        if self.kind == "unit":
            return ""
        if self.kind == "named":
            return " { %s }" % ", ".join("%s%s: %s" % (vis, f.name, FIELD_RUST[f.ty]) for f in self.fields)
        return "(%s)" % ", ".join("%s%s" % (vis, FIELD_RUST[f.ty]) for f in self.fields)

    def ctor(self, path):
        if self.kind == "unit":
            return path
        if self.kind == "named":
            return "%s { %s }" % (path, ", ".join("%s: %s" % (f.name, FIELD_VALUE[f.ty]) for f in self.fields))
        return "%s(%s)" % (path, ", ".join(FIELD_VALUE[f.ty] for f in self.fields))

    def pattern(self, path):
        if self.kind == "unit":
            return path
        if self.kind == "named":
            return "%s { %s }" % (path, ", ".join(f.name for f in self.fields))
        return "%s(%s)" % (path, ", ".join("_%d" % i for i in range(len(self.fields))))


class TypeDef:
    """struct (variants == [the body], is_enum False) or enum"""

    def __init__(self, derive, variants, is_enum=False, shared=None, rename_all=None, name="T", extra=(), generics=None):
        self.derive = derive                    # trait name
        # generics: None or (decl, instantiation), e.g. ("<A, B>", "<Probe, Probe>"): the type is declared as `TG<A, B>` and everything
        # else (reference, harnesses) uses the alias `pub type T = TG<Probe, Probe>;`
        self.generics = generics
        self.extra = list(extra)                # see Variant.extra (container level)
        self.variants = variants if isinstance(variants, list) else [variants]
        self.is_enum = is_enum
        self.shared = shared                    # container-level Attr of an enum
        self.rename_all = rename_all
        self.name = name
        if not is_enum:
            self.variants[0].name = self.variants[0].name or name

    def attr_lines(self, attr, rename_all, indent="", extra=()):
        a = ATTR[self.derive]
        out = ["%s#[%s(%s)]" % (indent, a, inner) for pos, inner in extra if pos == "first"]
        if rename_all:
            out.append('%s#[%s(rename_all = "%s")]' % (indent, a, rename_all))
        if attr:
            out.append("%s#[%s(%s)]" % (indent, a, attr.inner()))
        out += ["%s#[%s(%s)]" % (indent, a, inner) for pos, inner in extra if pos == "last"]
        return out

    def decl(self):
        lines = ["#[derive(derive_more::%s)]" % self.derive]
        if self.is_enum:
            lines += self.attr_lines(self.shared, self.rename_all, extra=self.extra)
            lines.append("pub enum %s {" % self.decl_name())
            for v in self.variants:
                lines += self.attr_lines(v.attr, v.rename_all, "    ", extra=v.extra)
                lines.append("    %s%s," % (v.name, v.body()))
            lines.append("}")
        else:
            v = self.variants[0]
            lines += self.attr_lines(v.attr, self.rename_all or v.rename_all, extra=self.extra + v.extra)
            lines.append("pub struct %s%s%s" % (self.decl_name(), v.body("pub "), "" if v.kind == "named" else ";"))
        if self.generics:
            lines.append("pub type %s = %sG%s;" % (self.name, self.name, self.generics[1]))
        return "\n".join(lines)

    def decl_name(self):
        return self.name + "G" + self.generics[0] if self.generics else self.name

    def title(self):
        return re.sub(r"\s+", " ", self.decl().replace("derive_more::", "").replace("pub ", ""))

    def ctor(self, v):
        return v.ctor("%s::%s" % (self.name, v.name) if self.is_enum else self.name)

    def pattern(self, v):
        return v.pattern("%s::%s" % (self.name, v.name) if self.is_enum else self.name)


# ----------------------------------------------------------------------------------------------------
# reference expressions (the oracle). Every one is an expression of type fmt::Result that writes to `f: &mut Formatter`;
# it is placed inside `match self { <pattern binding every field BY REFERENCE under its name> => <expr> }` in an inherent
# method, so `self` is the value, a field's name is a reference to it (as the docs say for argument expressions), and
# `*name` is the field itself.
# ----------------------------------------------------------------------------------------------------
def field_index_by_lit_name(v, name):
    for i in range(len(v.fields)):
        if v.lit_name(i) == name:
            return i
    return None


def format_args_text(attr, v, extra_bound=()):
    """`format_args!("literal", args.., name = *name ..)`: the same literal and argument tokens; every name that occurs inside
    the literal and is a field (and is not an alias of an explicit argument, nor bound by the caller: extra_bound) is bound
    to THE FIELD ITSELF (property C02: 'the field itself when named inside the literal')."""
    parts = ['"%s"' % attr.lit.text()] + [a.text() for a in attr.args]
    for n in attr.lit.names():
        if n in attr.aliases() or n in extra_bound:
            continue
        i = field_index_by_lit_name(v, n)
        if i is not None:
            parts.append("%s = *%s" % (v.binder(i), v.binder(i)))
    return "format_args!(%s)" % ", ".join(parts)


def ref_attr(attr, v):
    return "f.write_fmt(%s)" % format_args_text(attr, v)


def ref_direct(trait, expr):
    """`expr` formatted directly under `trait` with the formatter as it is"""
    return "fmt::%s::fmt(&(%s), f)" % (trait, expr)


def ref_str(s):
    return 'f.write_str("%s")' % s


def ref_implicit(td, v):
    """no attribute: single field => as its field under the derived trait; unit => its name (rename_all converted)"""
    if len(v.fields) == 1:
        return ref_direct(td.derive, "*" + v.binder(0))
    assert v.kind == "unit" or not v.fields
    return ref_str(implicit_name(td, v))


def implicit_name(td, v):
    name = v.name[2:] if v.name.startswith("r#") else v.name
    casing = v.rename_all or td.rename_all
    return rename(name, casing) if casing else name


# ----------------------------------------------------------------------------------------------------
# property C05: which attributes are transparent, written from the property sentence
# ----------------------------------------------------------------------------------------------------
def transparent(td, v, attr):
    """None (inert) or (trait, expr): 'if a Display-like derive is used on a single-field type without a format attribute, or
    the literal of the attribute is exactly one placeholder with no fill, alignment, sign, #, 0, width, precision or x?/X?,
    referring to its only argument (positional index 0 or matching name) or to a field by name'"""
    if attr is None:
        if td.derive in DISPLAY_LIKE and len(v.fields) == 1:
            return td.derive, "*" + v.binder(0)
        return None
    parts = attr.lit.parts
    if len(parts) != 1 or not isinstance(parts[0], PH):
        return None                                   # surrounding text, escapes, several placeholders, no placeholder
    p = parts[0]
    if not p.bare():
        return None
    if len(attr.args) == 1:
        a = attr.args[0]
        if p.arg is None or p.arg == 0 or (isinstance(p.arg, str) and a.alias == p.arg):
            return p.trait(), a.expr                  # its only argument, by position 0 or by its name
        return None
    if not attr.args and isinstance(p.arg, str):
        i = field_index_by_lit_name(v, p.arg)
        if i is not None:
            return p.trait(), "*" + v.binder(i)       # a field by name: the field itself
    return None


# ----------------------------------------------------------------------------------------------------
# property C07: `_variant`
# ----------------------------------------------------------------------------------------------------
def mentions_variant(attr):
    """'mentions `_variant` (as a placeholder or as an argument)'"""
    if "_variant" in attr.lit.names():
        return True
    return any(a.expr.strip() == "_variant" for a in attr.args)


# ----------------------------------------------------------------------------------------------------
# rename_all: the documented list of casings (impl/doc/display.md). Each casing's own name spells the two words
# "xxx", "case" in that casing, which is the definition used here. Words are separated at `_`, `-`, at a lower->Upper
# boundary and before the last capital of an acronym followed by lower case (XMLThing = XML + Thing). Digits are NOT
# handled (the documentation says nothing about them; names with digits are kept out of the family).
# ----------------------------------------------------------------------------------------------------
CASINGS = ["lowercase", "UPPERCASE", "PascalCase", "camelCase", "snake_case", "SCREAMING_SNAKE_CASE", "kebab-case",
           "SCREAMING-KEBAB-CASE"]


def words(name):
    assert not any(c.isdigit() for c in name), "digits are outside the documented rule"
    out = []
    for chunk in re.split(r"[_\-]+", name):
        if not chunk:
            continue
        cur = chunk[0]
        for i in range(1, len(chunk)):
            c, prev = chunk[i], chunk[i - 1]
            nxt = chunk[i + 1] if i + 1 < len(chunk) else ""
            if c.isupper() and (prev.islower() or (prev.isupper() and nxt.islower())):
                out.append(cur)
                cur = c
            else:
                cur += c
        out.append(cur)
    return out


def rename(name, casing):
    ws = [w.lower() for w in words(name)]
    cap = [w[:1].upper() + w[1:] for w in ws]
    return {"lowercase": "".join(ws), "UPPERCASE": "".join(ws).upper(), "PascalCase": "".join(cap),
            "camelCase": "".join(ws[:1] + cap[1:]), "snake_case": "_".join(ws), "SCREAMING_SNAKE_CASE": "_".join(ws).upper(),
            "kebab-case": "-".join(ws), "SCREAMING-KEBAB-CASE": "-".join(ws).upper()}[casing]


# ----------------------------------------------------------------------------------------------------
# program assembly
# ----------------------------------------------------------------------------------------------------
# SPLIT_NOTE (props/C09.py): Kani de-duplicates the concrete-playback tests of one harness by their input values and may keep the
# test of a `cover!` instead of the failed assertion's. Each harness draws one extra symbolic bool: `true` runs the covers,
# `false` asserts the post-condition. The post-condition itself is evaluated BEFORE the branch (a call under a symbolic guard
# defeats CBMC's constant propagation of the sink length), so it is checked for every value.
def harness_text(name, td, v, symbolic_opts, post_call, covers, doc=None, assert_text="post_fmt", assume=None):
    opts = "any_options()" if symbolic_opts else "FormattingOptions::new()"
    if assume:
        opts += ";\n        kani::assume(%s)" % assume
    cov = "".join('            kani::cover!(%s, "%s");\n' % (c, m) for c, m in covers)
    return ('%s    #[kani::proof]\n    fn %s() {\n        let v = %s;\n        let o = %s;\n'
            '        let out = run(o, |f| <%s as fmt::%s>::fmt(&v, f));\n        let post = %s;\n'
            '        if kani::any::<bool>() {   // covers on their own path, see SPLIT_NOTE\n%s'
            '        } else {\n            assert!(post, "%s");\n        }\n    }\n'
            % ("    /// %s\n" % doc if doc else "", name, td.ctor(v), opts, td.name, td.derive, post_call, cov, assert_text))


def reference_method(td, exprs, name="reference", doc=""):
    """exprs: {variant name: Rust expr}; variants without an entry are unreachable in the harnesses that use the method"""
    arms = []
    for v in td.variants:
        e = exprs.get(v.name)
        if e is None:
            arms.append("            %s::%s { .. } => unreachable!()," % (td.name, v.name))
        else:
            arms.append("            %s => %s," % (td.pattern(v), e))
    return ("impl %s {\n%s    pub fn %s(&self, f: &mut fmt::Formatter<'_>) -> fmt::Result {\n        match self {\n%s\n        }\n    }\n}\n"
            % (td.name, "    /// %s\n" % doc if doc else "", name, "\n".join(arms)))


def module_text(td, items, proofs):
    return ("\nuse crate::common::*;\n\n" + td.decl() + "\n\n" + "\n".join(items) +
            "\n#[cfg(kani)]\nmod proofs {\n    use super::*;\n" + "".join(proofs) + "    // PLAYBACK-INSERTION-POINT\n}\n")


def slug(s):
    return re.sub(r"[^A-Za-z0-9]+", "_", s).strip("_")


def reference_program(key, td, exprs, what, minlen=None, with_contract=False, control=None, multi=False, fn=None, unwind=None):
    """A program whose post-condition is `out == bytes(v.reference(f))` under DEFAULT formatter options (C02, C07).
    exprs: {variant name: reference expr}; minlen: {variant name: lower bound of the output length, for the reachability cover};
    control: (variant name, deliberately wrong reference expr); multi: one harness over a symbolic choice of the variants
    (for cheap unit variants) instead of one harness per variant."""
    minlen = minlen or {}
    items = [reference_method(td, exprs, doc="the oracle: " + what)]
    items.append("/// Post-condition of `<%s as fmt::%s>::fmt(v, default formatter)`, from the property statement: byte-for-byte what the reference prints.\n"
                 "pub fn post_fmt(v: &%s, out: &(Sink, bool)) -> bool {\n    agree(out, &run(FormattingOptions::new(), |f| v.reference(f)))\n}\n"
                 % (td.name, td.derive, td.name))
    fn = fn or "<%s as fmt::%s>::fmt (expansion of #[derive(derive_more::%s)])" % (td.name, td.derive, td.derive)
    uw = "    #[kani::unwind(%d)]\n" % unwind if unwind else ""
    proofs, hs = [], []
    tested = [v for v in td.variants if v.name in exprs]
    if multi:
        ctor = "match kani::any::<u8>() { %s }" % " ".join(
            "%s => %s," % (i if i + 1 < len(tested) else "_", td.ctor(v)) for i, v in enumerate(tested))
        covers = [("matches!(v, %s::%s { .. }) && out.1 && !out.0.overflow && out.0.len >= %d" % (td.name, v.name, minlen.get(v.name, 0)),
                   "variant %s reachable, output produced" % v.name) for v in tested] if td.is_enum else \
                 [("out.1 && !out.0.overflow && out.0.len >= %d" % minlen.get(tested[0].name, 0), "output produced")]
        cov = "".join('            kani::cover!(%s, "%s");\n' % c for c in covers)
        proofs.append('%s    #[kani::proof]\n    fn ob_fmt() {\n        let v = %s;\n        let out = run(FormattingOptions::new(), |f| <%s as fmt::%s>::fmt(&v, f));\n'
                      '        let post = post_fmt(&v, &out);\n        if kani::any::<bool>() {   // covers on their own path, see SPLIT_NOTE\n%s'
                      '        } else {\n            assert!(post, "post_fmt");\n        }\n    }\n' % (uw, ctor, td.name, td.derive, cov))
        hs.append(Harness("ob_fmt", "forall variants {%s}, field values. post_fmt(v, out); %s" % (", ".join(v.name for v in tested), what),
                          fn=fn, cover_min=len(covers)))
    else:
        for v in tested:
            hn = "ob_fmt_" + slug(v.name) if td.is_enum else "ob_fmt"
            covers = [("out.1 && !out.0.overflow && out.0.len >= %d" % minlen.get(v.name, 0), "output produced")]
            proofs.append(uw + harness_text(hn, td, v, False, "post_fmt(&v, &out)", covers))
            hs.append(Harness(hn, "forall field values of %s. post_fmt(v, out); reference: %s" % (v.name if td.is_enum else "the struct", exprs[v.name]),
                              fn=fn, cover_min=1))
    if with_contract:
        # with_contract may name the variant the representative contract proof is run for
        v = [x for x in tested if x.name == with_contract][0] if isinstance(with_contract, str) else tested[0]
        items.append("#[cfg_attr(kani, kani::ensures(|r| post_fmt(v, r)))]\n"
                     "pub fn fmt_contract(v: &%s) -> (Sink, bool) { run(FormattingOptions::new(), |f| <%s as fmt::%s>::fmt(v, f)) }\n" % (td.name, td.name, td.derive))
        proofs.append("    #[kani::proof_for_contract(fmt_contract)]\n    fn ob_contract() { let v = %s; fmt_contract(&v); }\n" % td.ctor(v))
        hs.append(Harness("ob_contract", "#[kani::ensures(post_fmt)] on fmt_contract, proof_for_contract", kind="contract",
                          fn="fmt_contract (thin wrapper of the generated fmt)"))
    if control:
        vname, wrong = control
        v = [x for x in td.variants if x.name == vname][0]
        items.append(reference_method(td, {vname: wrong}, name="wrong_reference", doc="deliberately wrong oracle (negative control)"))
        proofs.append(harness_text("control_false_post", td, v, False, "agree(&out, &run(FormattingOptions::new(), |f| v.wrong_reference(f)))", [],
                                   doc="deliberately false post-condition", assert_text="deliberately false"))
        hs.append(Harness("control_false_post", "a deliberately wrong reference (%s) must FAIL" % wrong, kind="negative_control"))
    return Program(key, td.title(), module_text(td, items, proofs), hs)
