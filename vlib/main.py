import importlib
import json
import os
import sys
import time

from . import core


def usage():
    print("usage: ./check <ID> quick|thorough | ./check <ID> --replay <file> | ./check --setup", file=sys.stderr)
    return 2


def main(argv):
    if not argv:
        return usage()
    if argv[0] == "--setup":
        from . import setup
        return setup.run()
    prop = argv[0]
    try:
        mod = importlib.import_module("props." + prop)
    except ModuleNotFoundError:
        print("no check for %s" % prop, file=sys.stderr)
        return 2
    seed = int(os.environ.get("VERIF_SEED", "0") or 0)
    if len(argv) >= 3 and argv[1] == "--replay":
        from . import replay
        return replay.run(prop, mod, argv[2], seed)
    tier = argv[1] if len(argv) > 1 else os.environ.get("VERIF_TIER", "quick")
    if tier not in ("quick", "thorough"):
        return usage()
    if hasattr(mod, "run"):
        return mod.run(tier, seed)
    fam = mod.family(tier, seed)
    return core.decide(fam, tier, seed)


if __name__ == "__main__":
    sys.exit(main(sys.argv[1:]))
