"""./check <ID> --replay <file>: re-decide the single obligation named in a replay file against /repo's current tree.
For generated-code properties: regenerate the family, keep only the program (and harness) of the obligation, run the verifier and the
native playback again. For C03/C18 literal-level files: rebuild the native oracle from the current parser source and re-check the literal."""
import json
import os
import re
import sys

from . import core


def run(prop, mod, path, seed):
    core.WRITE_EVIDENCE = False
    d = json.load(open(path))
    ob = d.get("obligation", "")
    okey = ob.split(" ")[0].rstrip(":")
    tier = d.get("tier") or "quick"
    print("replaying obligation %s of %s (tier %s)" % (okey, prop, tier))
    if prop in ("C03", "C18") and d.get("failing_literal"):
        from props import C03
        fam = C03.family("quick", seed)
        core.write_crate(fam, fam.programs)
        binpath = C03.build_oracle(lambda s: print(s, file=sys.stderr))
        if not binpath:
            print("UNDECIDED property=%s native oracle does not build" % prop)
            return 2
        m = re.search(r'\((".*?")\)|of (".*?"):|parsing (".*?") ', d["failing_literal"])
        lit = None
        if m:
            lit = C03.rust_debug_str_to_py(next(g for g in m.groups() if g))
        if lit is None:
            print("UNDECIDED could not recover the literal from %r" % d["failing_literal"][:200])
            return 2
        rc, out, _ = C03.oracle(binpath, "lit", lit)
        print(out)
        if rc == 1:
            print("VIOLATION property=%s replay=%s obligation=%s reproduced on the current tree" % (prop, path, okey))
            return 1
        return 0 if rc == 0 else 2
    if hasattr(mod, "family"):
        fam = mod.family(tier, seed)
    else:
        print("UNDECIDED no family() for %s" % prop)
        return 2
    pkey, _, hname = okey.partition("/")
    progs = [p for p in fam.programs if p.key == pkey]
    if not progs:
        print("UNDECIDED program %s is not in the %s family of tier %s" % (pkey, prop, tier))
        return 2
    p = progs[0]
    if hname and hname not in ("expansion", "rejection"):
        p.harnesses = [h for h in p.harnesses if h.name == hname] or p.harnesses
    fam.programs = [p]
    return core.decide(fam, tier, seed)
