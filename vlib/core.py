"""Common machinery: harness-crate generation, Kani runner, result classification,
counterexample playback, known-findings handling and evidence writing.

Everything here is driven by a *family*: a list of Program objects produced by a property
module (`props/<ID>.py`). One Program = one Rust module of the harness crate, holding a type
definition on which the REAL derive macros of /repo are expanded (path dependency), the
contract predicates (`pre_*`/`post_*`, plain Rust) and the Kani proof harnesses which discharge
them.
"""
import hashlib
import json
import os
import re
import shutil
import subprocess
import sys
import time

VERIF = os.path.dirname(os.path.dirname(os.path.abspath(__file__)))
REPO = os.environ.get("VERIF_REPO", "/repo")
KANI_TOOLCHAIN = "nightly-2026-08-21"
ENV = dict(os.environ, CARGO_NET_OFFLINE="true", CARGO_TERM_COLOR="never")
NCPU = os.cpu_count() or 4


class Harness:
    def __init__(self, name, obligation, kind="proof", bounded=None, fn=None, expect_fail=False,
                 cover_min=0, stubs=()):
        self.name = name              # fn name inside `mod proofs`
        self.obligation = obligation  # human text of the contract clause discharged
        self.kind = kind              # proof | contract | should_panic | negative_control
        self.bounded = bounded        # None (complete over inputs) or text of the bound
        self.fn = fn                  # function(s) under contract
        self.expect_fail = expect_fail or kind == "negative_control"
        self.cover_min = cover_min    # number of kani::cover! that must be SATISFIED
        self.stubs = tuple(stubs)


class Program:
    def __init__(self, key, title, src, harnesses, expect_compile=True, meta=None):
        self.key = key                # stable identifier == module name
        self.title = title            # one-line description of the type definition
        self.src = src                # Rust source of the module
        self.harnesses = harnesses
        self.expect_compile = expect_compile
        self.meta = meta or {}


class Family:
    def __init__(self, prop, programs, common_src="", crate_attrs="", deps=None, kani_flags=(),
                 unwind=None, level="proof", functions_under_contract=(), trusted_base=(),
                 assumptions=(), rule="", extra_files=None, harness_timeout=600, jobs=None,
                 bounded_note=None, extra_cov=None):
        self.prop = prop
        self.programs = programs
        self.common_src = common_src
        self.crate_attrs = crate_attrs
        self.deps = deps or {}
        self.kani_flags = list(kani_flags)
        self.unwind = unwind
        self.level = level
        self.functions_under_contract = list(functions_under_contract)
        self.trusted_base = list(trusted_base)
        self.assumptions = list(assumptions)
        self.rule = rule
        self.extra_files = extra_files or {}
        self.harness_timeout = harness_timeout
        self.jobs = jobs
        self.bounded_note = bounded_note
        self.extra_cov = extra_cov or {}


COMMON_TRUSTED = [
    "rustc %s (Kani's pinned toolchain) compiles /repo's proc-macro crate and its expansion as the user's compiler does" % KANI_TOOLCHAIN,
    "Kani 0.68.0 MIR->goto translation and its models of core/alloc",
    "CBMC 6.11.0 + CaDiCaL (bit-precise machine arithmetic, no mathematical-integer abstraction)",
]


MEM_LIMIT_GB = int(os.environ.get("VERIF_MEM_GB", "20"))


def _limits():
    # address-space cap per process (inherited by cbmc): a runaway query fails (-> UNDECIDED) instead of taking the box down
    import resource
    lim = MEM_LIMIT_GB * 1024 ** 3
    resource.setrlimit(resource.RLIMIT_AS, (lim, lim))


def sh(cmd, cwd=None, timeout=None, env=None):
    t0 = time.time()
    try:
        p = subprocess.run(cmd, cwd=cwd, env=env or ENV, stdout=subprocess.PIPE, stderr=subprocess.STDOUT,
                           timeout=timeout, text=True, errors="replace", preexec_fn=_limits)
        return p.returncode, p.stdout, time.time() - t0
    except subprocess.TimeoutExpired as e:
        out = e.stdout if isinstance(e.stdout, str) else (e.stdout or b"").decode("utf8", "replace")
        return 124, out + "\n[timeout after %ss]" % timeout, time.time() - t0


def repo_fingerprint():
    """sha256 over the tracked+modified source files of /repo that the macros are built from."""
    h = hashlib.sha256()
    for root in ("impl/src", "src"):
        for d, _, fs in sorted(os.walk(os.path.join(REPO, root))):
            for f in sorted(fs):
                if f.endswith(".rs"):
                    p = os.path.join(d, f)
                    h.update(p.encode())
                    h.update(open(p, "rb").read())
    return h.hexdigest()[:16]


def crate_dir(prop):
    return os.path.join(VERIF, "harness", prop)


ASSUMPTION_CONSTRUCTS = ("kani::assume(", "#[kani::stub(", "#[kani::stub_verified(", "kani::any_where(", "unsafe ")


def assumption_scan(prop):
    """Mechanical count, on every run, of the constructs in the generated harness crate that are assumptions rather than
    proof (kani::assume, stubs, unsafe). Reported in the evidence; never influences a verdict."""
    counts = {c: 0 for c in ASSUMPTION_CONSTRUCTS}
    try:
        for d, _, fs in os.walk(os.path.join(crate_dir(prop), "src")):
            for f in fs:
                if f.endswith(".rs"):
                    txt = open(os.path.join(d, f), errors="replace").read()
                    for c in ASSUMPTION_CONSTRUCTS:
                        counts[c] += txt.count(c)
    except OSError:
        pass
    return counts


def target_dir(prop):
    return os.path.join(VERIF, "target", prop)


def write_crate(fam, programs):
    cd = crate_dir(fam.prop)
    if os.path.isdir(cd):
        shutil.rmtree(cd)
    os.makedirs(os.path.join(cd, "src"))
    deps = {"derive_more": '{ path = "%s", features = ["full"] }' % REPO}
    deps.update(fam.deps)
    with open(os.path.join(cd, "Cargo.toml"), "w") as f:
        f.write('[package]\nname = "h_%s"\nversion = "0.0.0"\nedition = "2021"\n\n[dependencies]\n' % fam.prop.lower())
        for k, v in deps.items():
            f.write("%s = %s\n" % (k, v))
        f.write('\n[lints.rust]\nunexpected_cfgs = { level = "allow" }\n\n[workspace]\n')
    lock = os.path.join(REPO, "Cargo.lock")
    if not os.path.exists(lock):  # Cargo.lock is git-ignored in the repository: scratch worktrees have none
        lock = "/repo/Cargo.lock"
    shutil.copy(lock, os.path.join(cd, "Cargo.lock"))
    with open(os.path.join(cd, "src", "lib.rs"), "w") as f:
        f.write("// GENERATED by /verif/check on every run -- do not edit.\n")
        f.write("#![allow(dead_code, unused_imports, unused_variables, unused_mut, non_camel_case_types, non_snake_case, clippy::all)]\n")
        f.write(fam.crate_attrs + "\n")
        f.write("pub mod common;\n")
        for p in programs:
            f.write("pub mod %s;\n" % p.key)
    with open(os.path.join(cd, "src", "common.rs"), "w") as f:
        f.write(fam.common_src or "// no common items\n")
    for p in programs:
        with open(os.path.join(cd, "src", p.key + ".rs"), "w") as f:
            f.write("// program %s: %s\n" % (p.key, p.title))
            f.write(p.src)
    for rel, content in fam.extra_files.items():
        path = os.path.join(cd, rel)
        os.makedirs(os.path.dirname(path), exist_ok=True)
        with open(path, "w") as f:
            f.write(content)
    return cd


ERR_START = re.compile(r"^error(\[E\d+\])?: ", re.M)


def attribute_compile_errors(out, keys):
    """Split rustc's human output into error blocks and attribute each to a program module."""
    blocks = []
    idx = [m.start() for m in ERR_START.finditer(out)]
    for i, s in enumerate(idx):
        e = idx[i + 1] if i + 1 < len(idx) else len(out)
        blocks.append(out[s:e])
    per = {}
    unattributed = []
    for b in blocks:
        first = b.splitlines()[0]
        if first.startswith("error: could not compile") or first.startswith("error: aborting") \
                or "Failed to execute cargo" in first or first.startswith("error: Failed to"):
            continue
        m = re.search(r"-->\s+src/([A-Za-z0-9_]+)\.rs:(\d+)", b)
        if m and m.group(1) in keys:
            per.setdefault(m.group(1), []).append(b.strip()[:3000])
        else:
            unattributed.append(b.strip()[:3000])
    return per, unattributed


def kani_cmd(fam, extra=()):
    cmd = ["cargo", "kani", "--output-format", "terse", "-Z", "unstable-options",
           "--harness-timeout", "%ds" % fam.harness_timeout]
    if fam.unwind:
        cmd += ["--default-unwind", str(fam.unwind)]
    cmd += fam.kani_flags
    cmd += list(extra)
    return cmd


THREAD_RE = re.compile(r"^Thread \d+: ?", re.M)


def parse_terse(out):
    """Return {harness: {"text":..., "failed_checks":[...], "status":...}} from terse output."""
    res = {}
    cur = {}
    # Kani prints "Thread N: Checking harness X..." then later a block "Thread N: \nVERIFICATION RESULT: ...".
    lines = out.splitlines()
    thread_h = {}
    i = 0
    cur_h = None
    while i < len(lines):
        ln = lines[i]
        m = re.match(r"^(?:Thread (\d+): )?Checking harness (\S+?)\.\.\.", ln)
        if m:
            thread_h[m.group(1) or "0"] = m.group(2)
            cur_h = m.group(2)
            res.setdefault(cur_h, {"text": "", "failed_checks": [], "status": None, "stubs": []})
            i += 1
            continue
        m = re.match(r"^Thread (\d+):\s+- Stub: (.*)$", ln)
        if m and thread_h.get(m.group(1)) in res:
            res[thread_h[m.group(1)]]["stubs"].append(m.group(2))
            i += 1
            continue
        m = re.match(r"^Thread (\d+): ?$", ln)
        if m:
            cur_h = thread_h.get(m.group(1))
            i += 1
            continue
        if cur_h is not None:
            r = res[cur_h]
            r["text"] += ln + "\n"
            m = re.match(r"^Failed Checks: (.*)$", ln)
            if m:
                loc = lines[i + 1].strip() if i + 1 < len(lines) else ""
                r["failed_checks"].append((m.group(1), loc))
            m = re.match(r"^(?:Thread \d+: )?\s*- Stub: (.*)$", ln)
            if m:
                r["stubs"].append(m.group(1))
            if ln.startswith("VERIFICATION:- "):
                r["status"] = ln[len("VERIFICATION:- "):].strip().split()[0]
                r["status_line"] = ln
            if "CBMC timed out" in ln or "timed out" in ln.lower():
                r["timeout"] = True
        i += 1
    return res


def run_family(fam, programs, log):
    """Build + verify. Returns (results, dropped) where results maps pretty harness name -> dict."""
    td = target_dir(fam.prop)
    os.makedirs(td, exist_ok=True)
    progs = list(programs)
    dropped = {}
    jobs = fam.jobs or NCPU
    for attempt in range(6):
        cd = write_crate(fam, progs)
        jpath = os.path.join(td, "kani_out.json")
        if os.path.exists(jpath):
            os.remove(jpath)
        hsel = []
        if sum(len(p.harnesses) for p in progs) <= 60:
            for p in progs:
                for h in p.harnesses:
                    hsel += ["--harness", "%s::proofs::%s" % (p.key, h.name)]
            hsel += ["--exact"]
        cmd = kani_cmd(fam, ["-j", str(jobs), "--export-json", jpath, "--target-dir", td] + hsel)
        log("$ (cd %s && %s)" % (cd, " ".join(cmd)))
        # overall timeout: generous; each harness has its own timeout
        n_h = sum(len(p.harnesses) for p in progs)
        overall = 900 + fam.harness_timeout * (1 + n_h // max(1, jobs)) * 2
        rc, out, dt = sh(cmd, cwd=cd, timeout=overall)
        with open(os.path.join(td, "kani_stdout.txt"), "w") as f:
            f.write(out)
        compiled = "Checking harness" in out or "No proof harnesses" in out or os.path.exists(jpath)
        if not compiled:
            per, un = attribute_compile_errors(out, {p.key for p in progs})
            if not per:
                return None, dropped, {"build_failure": out[-6000:], "unattributed": un}
            for k, blocks in per.items():
                dropped[k] = blocks
            log("build failed; dropping programs rejected by rustc: %s" % sorted(per))
            progs = [p for p in progs if p.key not in per]
            if not progs:
                return {}, dropped, {"wall_s": dt, "cmd": " ".join(cmd)}
            continue
        terse = parse_terse(out)
        js = {}
        if os.path.exists(jpath):
            try:
                js = json.load(open(jpath))
            except Exception:
                js = {}
        props = {d["harness_id"]: (d.get("property_details") or {}) for d in js.get("property_details", [])}
        stats = {d["harness_id"]: (d.get("cbmc_stats") or {}) for d in js.get("cbmc", [])}
        errs = {d["harness_id"]: d for d in js.get("error_details", [])}
        results = {}
        for p in progs:
            for h in p.harnesses:
                pretty = "%s::proofs::%s" % (p.key, h.name)
                t = terse.get(pretty, {})
                pd = props.get(pretty, {})
                st = stats.get(pretty, {})
                er = errs.get(pretty, {})
                results[pretty] = {
                    "program": p.key, "harness": h.name, "status": t.get("status"),
                    "failed_checks": t.get("failed_checks", []), "text": t.get("text", ""),
                    "stubs": t.get("stubs", []),
                    "total": pd.get("total_properties"), "failed": pd.get("failed"),
                    "undetermined": pd.get("undetermined"), "satisfied": pd.get("satisfied"),
                    "unsatisfiable": pd.get("unsatisfiable"),
                    "solver_s": st.get("runtime_solver_s"), "symex_s": st.get("runtime_symex_s"),
                    "error": er,
                }
        info = {"wall_s": dt, "cmd": " ".join(cmd), "tools": js.get("tools", {}), "rc": rc}
        return results, dropped, info
    return None, dropped, {"build_failure": "too many build attempts"}


def load_known():
    """known_findings.txt (committed, never written at run time). Lines:
         open: property=<id> key=<program>/<obligation> <what fails>
         fixed: property=<id> <commit> <what failed>          (suppresses nothing)"""
    path = os.path.join(VERIF, "known_findings.txt")
    ents = []
    if os.path.exists(path):
        for ln in open(path):
            ln = ln.strip()
            m = re.match(r"^open: property=(\S+) key=(\S+) (.*)$", ln)
            if m:
                ents.append({"property": m.group(1), "status": "open", "key": m.group(2), "what": m.group(3)})
    return ents


def known_open(prop, key):
    for e in load_known():
        if e.get("property") == prop and e.get("status") == "open" and e.get("key") == key:
            return e
    return None


def playback(fam, prog, h, log, want_cover=None):
    """Obtain Kani's counterexample for one harness and replay it natively against the real code.
    Returns (reproduced: bool|None, test_src, output)."""
    cd = crate_dir(fam.prop)
    td = target_dir(fam.prop)
    pretty = "%s::proofs::%s" % (prog.key, h.name)
    cmd = kani_cmd(fam, ["--harness", pretty, "--exact", "-Z", "concrete-playback",
                         "--concrete-playback=print", "--target-dir", td])
    rc, out, dt = sh(cmd, cwd=cd, timeout=fam.harness_timeout + 600)
    blocks = re.findall(r"```\s*\n(.*?)```", out, re.S)
    if want_cover:
        blocks = [b for b in blocks if "Check for `cover`" in b and want_cover in b]
    else:
        # Kani de-duplicates playback tests by their concrete values and may label the survivor with a cover:
        # keep the assertion-labelled tests first, but also run the cover-labelled ones (same harness, same
        # assertions): the violation reproduces iff ANY of them fails natively.
        blocks = [b for b in blocks if "Check for `cover`" not in b] + [b for b in blocks if "Check for `cover`" in b]
    # identical concrete values give identical test names: keep the first of each
    seen, uniq = set(), []
    for b in blocks:
        mm = re.search(r"fn (kani_concrete_playback_\w+)", b)
        if mm and mm.group(1) not in seen:
            seen.add(mm.group(1))
            uniq.append(b)
    blocks = uniq
    if not blocks:
        return None, None, out[-4000:]
    test_src = "\n".join(blocks)
    tnames = re.findall(r"fn (kani_concrete_playback_\w+)", test_src)
    if not tnames:
        return None, test_src, out[-4000:]
    # common prefix used as the libtest filter (kani_concrete_playback_<harness>_)
    tname = "kani_concrete_playback_" + h.name
    # insert the tests into the program module's `mod proofs` (generated crate: editing is fine)
    path = os.path.join(cd, prog.meta.get("proofs_file", os.path.join("src", prog.key + ".rs")))
    src = open(path).read()
    marker = "// PLAYBACK-INSERTION-POINT"
    if marker not in src:
        return None, test_src, "no insertion point in generated module"
    src = src.replace(marker, test_src + "\n" + marker, 1)
    open(path, "w").write(src)
    cmd2 = ["cargo", "kani", "playback", "-Z", "concrete-playback"] + \
           [x for f in ("function-contracts", "stubbing") if f in fam.kani_flags for x in ("-Z", f)] + \
           ["--", "--exact"] + [prog.key + "::proofs::" + n for n in tnames]
    rc2, out2, dt2 = sh(cmd2, cwd=cd, timeout=1200, env=dict(ENV, CARGO_TARGET_DIR=td + "/playback"))
    ran = re.search(r"test result: (\w+)\. (\d+) passed; (\d+) failed", out2)
    if not ran:
        return None, test_src, out2[-4000:]
    if want_cover:
        # the harness is #[kani::should_panic]; "the call returned" reproduces iff the native run does NOT panic
        reproduced = ran.group(1) == "ok" and int(ran.group(2)) >= 1
    else:
        reproduced = ran.group(1) == "FAILED" and int(ran.group(3)) >= 1
    if int(ran.group(2)) + int(ran.group(3)) == 0:
        return None, test_src, out2[-4000:]
    return reproduced, test_src, out2[-4000:]


def write_replay(prop, name, payload):
    d = os.path.join(VERIF, "replay", prop)
    os.makedirs(d, exist_ok=True)
    path = os.path.join(d, re.sub(r"[^A-Za-z0-9_.-]", "_", name) + ".json")
    with open(path, "w") as f:
        json.dump(payload, f, indent=1)
    return path


def decide(fam, tier, seed, max_playback=3):
    """Full check of one family. Prints VIOLATION / KNOWN-FINDING lines, writes evidence,
    returns exit code."""
    t0 = time.time()
    logs = []

    def log(s):
        logs.append(s)
        print("[%s] %s" % (fam.prop, s), file=sys.stderr, flush=True)

    results, dropped, info = run_family(fam, fam.programs, log)
    if results is None:
        log("UNDECIDED: harness crate does not build and the failure is not attributable to a program:\n" +
            info.get("build_failure", "")[-3000:] + "\n" + "\n".join(info.get("unattributed", []))[:3000])
        write_evidence(fam, tier, seed, [], [], {}, info, time.time() - t0, undecided=["build failure"], violations=0, known=[])
        return 2
    by_key = {p.key: p for p in fam.programs}
    violations = []
    known = []
    undecided = []
    discharged = []
    controls_ok = 0
    # 1. programs that rustc rejected / the macro panicked on
    for key, blocks in dropped.items():
        p = by_key[key]
        if not p.expect_compile:
            continue
        kf = known_open(fam.prop, key + "/expansion")
        what = "program %s (%s): the expansion is rejected: %s" % (key, p.title, blocks[0].splitlines()[0])
        if kf:
            known.append((key + "/expansion", kf.get("what", what)))
            continue
        path = write_replay(fam.prop, key + "__expansion", {
            "property": fam.prop, "obligation": key + "/expansion: a supported program must expand to code that compiles, so that its contract can be generated",
            "counterexample": None, "program": p.src, "title": p.title, "verifier_output": blocks,
            "how_to_replay": "./check %s --replay <this file> (re-generates the program and re-runs rustc on the real macro)" % fam.prop})
        violations.append((key + "/expansion", path, "no-failing-input-found", what))
    # 1b. programs that the property says must be REJECTED at compile time (a diagnostic instead of an arbitrary choice):
    #     type-level obligation discharged by rustc -- accepted silently => violation
    rejected_ok = []
    for p in fam.programs:
        if p.expect_compile:
            continue
        if p.key in dropped:
            rejected_ok.append(p.key)
            continue
        okey = p.key + "/rejection"
        what = "program %s (%s) must be rejected with a diagnostic but the derive accepted it and the expansion compiled" % (p.key, p.title)
        kf = known_open(fam.prop, okey)
        if kf:
            known.append((okey, kf.get("what", what)))
            continue
        path = write_replay(fam.prop, p.key + "__rejection", {
            "property": fam.prop, "obligation": okey + ": the derive must fail to compile on this program", "counterexample": None,
            "program": p.src, "title": p.title, "verifier_output": "rustc accepted the program",
            "how_to_replay": "./check %s --replay <this file>" % fam.prop})
        violations.append((okey, path, "no-failing-input-found", what))
    fam.extra_cov["must_reject_programs"] = len([p for p in fam.programs if not p.expect_compile])
    fam.extra_cov["must_reject_rejected_by_rustc"] = len(rejected_ok)
    # 2. verifier outcomes
    n_pb = 0
    for pretty, r in results.items():
        p = by_key[r["program"]]
        h = [x for x in p.harnesses if x.name == r["harness"]][0]
        status = r["status"]
        okey = "%s/%s" % (p.key, h.name)
        if h.kind == "negative_control":
            if status == "FAILED":
                controls_ok += 1
            else:
                undecided.append("%s: negative control did not fail (status %s) -- harness may be vacuous" % (okey, status))
            continue
        if h.kind == "no_return" and status == "SUCCESSFUL" and (r.get("satisfied") or 0) > 0:
            # #[kani::should_panic] harness whose post-call cover "RETURNED" is satisfiable: the call can return
            status = "FAILED"
            r["failed_checks"] = [("cover RETURNED is satisfiable: the call returns for some input instead of panicking", pretty)]
            r["returned"] = True
        if status == "SUCCESSFUL":
            if h.cover_min and (r.get("satisfied") or 0) < h.cover_min:
                undecided.append("%s: only %s of %s reachability covers satisfied (vacuity guard)" % (okey, r.get("satisfied"), h.cover_min))
                continue
            if not r.get("total"):
                undecided.append("%s: zero obligations generated" % okey)
                continue
            discharged.append(pretty)
            continue
        if status is None or r.get("error", {}).get("exit_status") in ("timeout", "out_of_memory"):
            undecided.append("%s: no verdict (%s)" % (okey, (r.get("error") or {}).get("exit_status") or "missing from output / timeout"))
            continue
        # FAILED
        fcs = r["failed_checks"]
        only_unwind = fcs and all("unwinding assertion" in d for d, _ in fcs)
        if only_unwind:
            undecided.append("%s: unwinding assertion failed (bound too small) -- not a verdict" % okey)
            continue
        if not fcs and "timed out" in r["text"].lower():
            undecided.append("%s: timeout" % okey)
            continue
        if not fcs and (r.get("error") or {}).get("exit_status") not in (None, "properties_failed"):
            undecided.append("%s: verifier error %s" % (okey, r.get("error")))
            continue
        kf = known_open(fam.prop, okey)
        if kf:
            known.append((okey, kf.get("what", "")))
            continue
        desc = "; ".join("%s @ %s" % (d, l) for d, l in fcs[:4])
        payload = {"property": fam.prop, "obligation": "%s -- %s" % (okey, h.obligation), "function_under_contract": h.fn,
                   "program": p.src, "title": p.title, "failed_checks": fcs, "verifier_output": r["text"][-6000:],
                   "tier": tier, "seed": seed}
        if n_pb < max_playback:
            n_pb += 1
            log("obligation %s FAILED (%s); extracting counterexample and replaying natively" % (okey, desc))
            rep, test_src, pbout = playback(fam, p, h, log, want_cover="RETURNED" if r.get("returned") else None)
            payload.update({"counterexample_test": test_src, "native_replay_output": pbout, "native_replay_reproduced": rep})
            if rep is True:
                path = write_replay(fam.prop, okey, payload)
                violations.append((okey, path, "", desc))
            elif rep is False:
                path = write_replay(fam.prop, okey + "__unreproduced", payload)
                undecided.append("%s: verifier counterexample did NOT reproduce natively (verifier artefact?) see %s" % (okey, path))
            else:
                path = write_replay(fam.prop, okey, payload)
                violations.append((okey, path, "no-failing-input-found", desc))
        else:
            payload["note"] = "playback cap reached; counterexample not extracted for this obligation"
            path = write_replay(fam.prop, okey, payload)
            violations.append((okey, path, "no-failing-input-found", desc + " (replay not attempted: cap)"))
    wall = time.time() - t0
    write_evidence(fam, tier, seed, discharged, results, dropped, info, wall, undecided, len(violations), known,
                   controls_ok=controls_ok)
    for okey, what in known:
        print("KNOWN-FINDING: property=%s %s %s" % (fam.prop, okey, what))
    for okey, path, suffix, desc in violations:
        print("VIOLATION property=%s replay=%s obligation=%s %s %s" % (fam.prop, path, okey, desc.replace("\n", " ")[:300], suffix))
    for u in undecided:
        print("UNDECIDED property=%s %s" % (fam.prop, u))
    n_ob = sum(1 for p in fam.programs for h in p.harnesses if h.kind != "negative_control")
    print("%s %s: %d/%d obligations discharged, %d violations, %d known findings, %d undecided, %.0fs" % (
        fam.prop, tier, len(discharged), n_ob, len(violations), len(known), len(undecided), wall))
    if violations:
        return 1
    if undecided:
        return 2
    return 0


WRITE_EVIDENCE = True


def write_evidence(fam, tier, seed, discharged, results, dropped, info, wall, undecided, violations, known,
                   controls_ok=0):
    if not WRITE_EVIDENCE:  # --replay runs decide one obligation only and must not overwrite the evidence of the check
        return
    os.makedirs(os.path.join(VERIF, "evidence"), exist_ok=True)
    obs_all = [(p, h) for p in fam.programs for h in p.harnesses if h.kind != "negative_control"]
    # obligations that fail because of a LISTED known finding are reported separately, not as open proof obligations
    kset = {k for k, _ in known}
    obs = [(p, h) for p, h in obs_all if "%s/%s" % (p.key, h.name) not in kset]
    complete = [(p, h) for p, h in obs if not h.bounded]
    bounded = [(p, h) for p, h in obs if h.bounded]
    dset = set(discharged)
    d_complete = [1 for p, h in complete if "%s::proofs::%s" % (p.key, h.name) in dset]
    d_bounded = [1 for p, h in bounded if "%s::proofs::%s" % (p.key, h.name) in dset]
    cbmc_total = sum((r.get("total") or 0) for k, r in (results or {}).items() if k in dset)
    solver = sum((r.get("solver_s") or 0) for r in (results or {}).values())
    symex = sum((r.get("symex_s") or 0) for r in (results or {}).values())
    samples = []
    for p, h in obs[:: max(1, len(obs) // 6)][:8]:
        samples.append({"program": p.key, "type_definition": p.title, "harness": h.name, "obligation": h.obligation,
                        "bounded": h.bounded})
    stubs = sorted({s for r in (results or {}).values() for s in r.get("stubs", [])})
    cov = {
        "obligations": len(complete) if fam.level == "proof" else len(obs),
        "discharged": len(d_complete) if fam.level == "proof" else len(d_complete) + len(d_bounded),
        "checker_cmd": info.get("cmd", ""),
        "trusted_base": COMMON_TRUSTED + fam.trusted_base,
        "evaluations": len(obs),
        "distinct_nontrivial": len(dset),
        "rule": fam.rule,
        "samples": samples,
        "programs": len(fam.programs),
        "programs_rejected_by_rustc": sorted(dropped),
        "bounded_obligations": len(bounded),
        "bounded_discharged": len(d_bounded),
        "bounded_note": fam.bounded_note,
        "cbmc_properties_in_discharged_harnesses": cbmc_total,
        "solver_time_s": round(solver, 3),
        "symex_time_s": round(symex, 3),
        "back_end": "Kani 0.68.0 -> CBMC 6.11.0 / CaDiCaL",
        "tools": info.get("tools", {}),
        "functions_under_contract": fam.functions_under_contract,
        "stubs_reported_by_kani": stubs,
        "assumption_constructs_in_harness_crate": assumption_scan(fam.prop),
        "negative_controls_failed_as_expected": controls_ok,
        "undecided": undecided,
        "known_findings": [k for k, _ in known],
        "obligations_failing_under_listed_known_findings": len(obs_all) - len(obs),
        "repo_source_fingerprint": repo_fingerprint(),
        "exhaustive": False,
    }
    cov.update(fam.extra_cov)
    ev = {
        "property_id": fam.prop, "tier": tier, "seed": seed, "level": fam.level, "coverage": cov,
        "assumptions": fam.assumptions + [
            "the family of type definitions is finite and enumerated, not proved: nothing is claimed about type definitions outside it",
        ],
        "wall_s": round(wall, 1), "violations": violations,
    }
    with open(os.path.join(VERIF, "evidence", fam.prop + ".json"), "w") as f:
        json.dump(ev, f, indent=1)
