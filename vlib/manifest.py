"""Regenerates /verif/MANIFEST.json from the table below:  python3 -m vlib.manifest"""
import json
import os

VERIF = os.path.dirname(os.path.dirname(os.path.abspath(__file__)))

PROOF_NOTE = ("Trusted: rustc (Kani's pinned nightly-2026-08-21) compiling /repo's proc-macro and its expansion; Kani 0.68 "
              "MIR->goto translation and core/alloc models; CBMC 6.11 + CaDiCaL; bit-precise integers. The type-definition "
              "family is finite and enumerated (not proved); per program the obligation is discharged for every input value.")

CHECKS = {
    "C12": dict(
        category="proof",
        text="Contract on the generated try_from of each enum in a generated family (real macro of /repo expanded on every run): "
             "post_try_from(n, r) is discharged by Kani/CBMC for EVERY value n of the repr integer (8..128 bit) in one loop-free query; "
             "the oracle is the language's own discriminant (core::intrinsics::discriminant_value). Proof per program; programs enumerated.",
        design_ref="DESIGN.md §5 C12",
        technique="Kani function contract / loop-free full-domain harness on the generated try_from; oracle = discriminant_value",
        note=PROOF_NOTE,
    ),
}

NOT_APPLICABLE = {
    "C01": "statement is 'rustc accepts the expansion, warning-free': no function whose pre/post-condition could state it; decided by rustc's type checker, not by a deductive verifier",
    "C04": "sufficiency / non-excess of where-clauses is a fact about rustc's trait solver over generic impls; the syn-based bound inference cannot be executed symbolically by Kani or Verus (the pure placeholder->trait part is covered under C03)",
    "C15": "name resolution of the expansion in hostile scopes is decided by rustc; no contract can express it",
    "C16": "the argument scanner walks syn::buffer::Cursor token trees and the oracle is Rust's expression grammar; neither is within reach of Kani/Verus",
    "C17": "equality of two expansions and 'fails with a diagnostic' are facts about syn attribute parsing inside rustc; no contract reaches them",
    "C20": "a property of cargo feature resolution and cfg gating across builds; nothing to put a contract on",
}


def build():
    props = [json.loads(l) for l in open(os.path.join(VERIF, "properties.jsonl"))]
    checks = []
    na = []
    for p in props:
        pid = p["id"]
        if pid in CHECKS:
            c = CHECKS[pid]
            checks.append({
                "property_id": pid,
                "quick_cmd": "./check %s quick" % pid,
                "thorough_cmd": "./check %s thorough" % pid,
                "evidence_file": "/verif/evidence/%s.json" % pid,
                "replay_cmd_template": "./check %s --replay {path}" % pid,
                "engine": "kani-contracts",
                "level_claimed": {"category": c["category"], "text": c["text"], "design_ref": c["design_ref"]},
                "level_note": c["note"],
                "technique": c["technique"],
            })
        else:
            na.append({"property_id": pid, "reason": NOT_APPLICABLE.get(pid, "check not built yet (planned, see DESIGN.md §5)")})
    m = {
        "version": 1,
        "setup_cmd": "./check --setup",
        "hooks": {
            "guard": "derive_more_verif",
            "enable": "no hooks are needed: harness crates depend on /repo by path and the parser source is copied byte-for-byte on every run",
            "baseline_off_cmd": "cd /repo && cargo test --workspace --no-fail-fast --offline",
            "source_commits": [],
            "add_only": True,
        },
        "engines": [{"name": "kani-contracts", "path": "/verif/check", "serves_properties": sorted(CHECKS),
                     "kind_free_text": "generator of harness crates over the real /repo macros and sources + Kani 0.68 / CBMC 6.11 runner, "
                                       "counterexample playback against the real code, evidence writer"}],
        "checks": checks,
        "not_applicable": na,
        "notes": "Contract-based deductive verification with Kani (function contracts, proof_for_contract, loop-free full-domain harnesses). "
                 "Verus has no role (DESIGN.md §2.1). Exit codes: 0 held, 1 VIOLATION, 2 undecided (timeout / tool limit), never an alarm.",
    }
    with open(os.path.join(VERIF, "MANIFEST.json"), "w") as f:
        json.dump(m, f, indent=1)
    return m


if __name__ == "__main__":
    m = build()
    try:
        import jsonschema
        jsonschema.validate(m, json.load(open("/root/.vp/MANIFEST.schema.json")))
        print("MANIFEST.json valid; checks:", [c["property_id"] for c in m["checks"]])
    except ImportError:
        print("MANIFEST.json written (jsonschema not available to validate)")
