"""C06 -- derive_more::Debug without attributes is indistinguishable from std Debug.

Two groups of contracts, all discharged by Kani against the REAL code of /repo:

(1) the crate's own run-time builder `derive_more::__private::{debug_tuple, DebugTuple}` (src/fmt.rs, incl. the `Padded`
    adapter) against `core::fmt::Formatter::debug_tuple`, one builder STEP per harness (programs `bt_flat`, `bt_pretty`):

        post_same := result(dm) == result(core)  &&  bytes(dm sink) == bytes(core sink)        [+ the field saw the same options]

    for `debug_tuple(name)`, `.field(v)` from the abstract states (fields == 0 | fields > 0) x (Ok | Err), `.finish()`,
    `.finish_non_exhaustive()`, names "" and "N", a sink that fails at every byte position.  Each harness is
    `debug_tuple(name)`, a concrete prefix of <= 1 tiny field (core's DebugTuple has private fields: the state `fields > 0`
    can only be reached by calling `.field`), the step, a finisher -- so k <= 2 is covered directly; the claim for k fields is the
    composition of the step contracts over the invariant `(result, fields == 0, fields == 1, empty_name)`: argued, not proved.

(2) the generated `fmt` of a family of type definitions; every member is declared twice -- `#[derive(derive_more::Debug)]`
    in module `dm`, `#[derive(core::fmt::Debug)]` in module `sd`, same names -- and

        post_same := bytes(dm::T as Debug) == bytes(sd::T as Debug)

    quick: `{:?}` | `{:x?}` | `{:X?}` | `{:w$?}` for every w (one obligation `ob_flat`), `{:#?}` (`ob_pretty`), and for the shapes
    that contain positional fields `{:#x?}`, `{:#X?}`, `{:#w$?}`; thorough: every option kind, flat and pretty.
    With `#[debug(skip)]`/`#[debug(ignore)]` the reference is a hand-written std builder chain closed by
    `finish_non_exhaustive()`; with a field-level `#[debug("..", args)]` the reference passes `format_args!(..)` as that field.
    Family: unit / () / {}, tuple and named 1..3, multi-line and symbolic-byte field values, an enum with all variant kinds, nesting
    depth 2 (tuple|named in tuple|named, in enum variants), generics (type, lifetime + const, enum), raw identifiers as type /
    variant / field names, all subsets of skipped fields of 1-, 2- and 3-field structs, field-level formats.
    Added after the seeded-defect rounds: enum tuple variants with a skipped field BEFORE / BETWEEN shown ones (k_enum_pos: distinct
    probe types; k_enum_pos_val: equal types, pairwise distinct symbolic values), raw-named fields that also carry a field-level
    format (raw_field_fmt), raw type / variant names on empty tuples and tuples with skipped / formatted fields, unit shapes
    inside flat holders under width and precision (n_unit_in_tuple; `ob_flat` = default | x? | X? | every width | every precision),
    a skipped field followed later by a format-attribute field, every ordering, structs and variants (f_skip_fmt_named/_tuple),
    a literal-only field format "h\nt" in pretty mode (f_literal_nl: one write_str with an interior and no trailing newline).
    One representative carries a real `#[kani::ensures]` (proof_for_contract); one negative control.

Cost notes (measured, see DESIGN): CBMC's symbolic execution only stays concrete -- a few seconds per value instead of > 7 min -- if
(a) the flags word of the formatter is concrete on each path: `alternate` is fixed per harness and the other options are varied
one kind at a time, each variant on its own path (`match kani::any() { 0 => body(opts_0), .. }`), with symbolic width / precision
VALUES; probe tags are const parameters (a tag read back from an enum payload is not constant-propagated); and
(b) three functions of core are replaced by models (kani::stub):
  * `core::slice::memchr::memchr` by core's own `memchr_naive` (the word-at-a-time path goes through `align_offset`, DESIGN 2.4);
  * `core::slice::index::get_offset_len_noubcheck` by a version that gives EMPTY sub-slices a dangling non-null address: CBMC does not
    simplify `one-past-the-end pointer != null`, so the `Option<&[u8]>` returned by `haystack.get(finger..finger_back)` was neither
    None nor Some after a match at the end of a piece ("(\n", ",\n", "..\n") and every `split_inclusive('\n')` of the padding
    adapters forked up to the unwind bound, three loops deep;
  * `fmt::Arguments::as_str` by `None` in harnesses where every `Arguments` that reaches `fmt::write` has an argument (it tests bit 0
    of a pointer's address; the spurious `Some(str of symbolic length)` was then pushed through `Padded::write_str`).
Every counterexample is replayed natively, i.e. WITHOUT these models.

Findings on the tree this was written against (all confirmed natively on stable):
 1. (DESIGN 2.6) type and variant names that are raw identifiers are printed with the `r#` prefix (`r#type`, `r#if(..)`);
    std prints `type`, `if(..)`.  Programs raw_type_*, raw_variants; repair: /tmp/C06_fix.diff (unraw() at three sites).
 2. in pretty mode `DebugTuple::field` (src/fmt.rs:66) formats the value through `format_args!("{value:#?}")`, i.e. with a fresh
    formatter: every option of the outer formatter except `#` is lost (hex-debug, width, fill, alignment, sign, zero-pad,
    precision); core's DebugTuple keeps them.  `format!("{:#x?}", T(255u8))`: `T(\n    255,\n)` vs std `T(\n    0xff,\n)`.
    Obligations `*_pretty_<kind>*`, `bt_pretty/ob_*_<kind>`; no complete repair on stable with MSRV 1.75 (open known finding).
 3. `#[derive(derive_more::Debug)] struct B<'a, T>(&'a T, T);` does not compile ("lifetime may not live long enough"): the generated
    where-clause `&'a T: Debug` is preferred by rustc over the blanket impl for every `&'_ T` in the body.  Program
    g_ref_and_owned; repair: /tmp/C06_fix3.diff (bound the referent).
"""
import itertools
import os

from vlib.core import Family, Program, Harness

CAP = 96
TAGS = "ABCD"
# rendering suffix per first non-default option kind seen by an OptProbe
CODES = ["", "x", "X", "+", "-", "0", "<", ">", "^", "w", "p", "f"]

COMMON = r'''
pub use core::cell::Cell;
pub use core::fmt::{self, Alignment, Debug, DebugAsHex, Formatter, FormattingOptions, Sign, Write};

pub const CAP: usize = %(cap)d;

/// Fixed byte sink. A byte that would be stored at position `limit` makes the write fail (fmt::Error) instead.
pub struct Sink {
    pub buf: [u8; CAP],
    pub len: usize,
    pub overflow: bool,
    pub limit: usize,
}
impl Sink {
    pub fn new() -> Self { Sink { buf: [0; CAP], len: 0, overflow: false, limit: usize::MAX } }
    pub fn failing_at(limit: usize) -> Self { Sink { buf: [0; CAP], len: 0, overflow: false, limit } }
    /// byte-for-byte equality of what was written.
    /// Loop-free: bytes beyond `len` are never written (stay 0) in both sinks, so whole-buffer equality == prefix equality.
    pub fn same(&self, o: &Sink) -> bool {
        if self.len != o.len || self.overflow || o.overflow { return false; }
        let a: [u128; CAP / 16] = unsafe { core::mem::transmute(self.buf) };
        let b: [u128; CAP / 16] = unsafe { core::mem::transmute(o.buf) };
        a[0] == b[0] && a[1] == b[1] && a[2] == b[2] && a[3] == b[3] && a[4] == b[4] && a[5] == b[5]
    }
}
impl Write for Sink {
    fn write_str(&mut self, s: &str) -> fmt::Result {
        let b = s.as_bytes();
        let mut i = 0;
        while i < b.len() {
            if self.len >= self.limit { return Err(fmt::Error); }
            if self.len < CAP { self.buf[self.len] = b[i]; self.len += 1; } else { self.overflow = true; }
            i += 1;
        }
        Ok(())
    }
}

/// `bytes(a) == bytes(b)` and the same fmt::Result
pub fn post_same(ra: &fmt::Result, sa: &Sink, rb: &fmt::Result, sb: &Sink) -> bool {
    ra.is_ok() == rb.is_ok() && sa.same(sb)
}

/// `v` rendered by its Debug impl under the formatter options `o`
pub fn render<V: Debug + ?Sized>(v: &V, o: FormattingOptions) -> (fmt::Result, Sink) {
    let mut s = Sink::new();
    let r = { let mut f = Formatter::new(&mut s, o); v.fmt(&mut f) };
    (r, s)
}

/// Probe field value. Its rendering is its tag letter (`A`..`D`) followed by one character naming the first formatter option
/// it finds at a non-default value (x X: hex-debug, + -: sign, 0: zero-pad, < > ^: alignment, w: width, p: precision, f: fill),
/// so that a formatter option which does not reach the field changes the TEXT. The exact options are recorded in `seen`
/// as well (a field's Debug impl may render any of them, e.g. the width's value).
/// The tag is a const parameter (not data): the rendering never depends on a value read back from memory.
pub struct OptProbe<const TAG: u8> { pub seen: Cell<Option<FormattingOptions>>, pub pad: u8 }
impl<const TAG: u8> OptProbe<TAG> { pub fn new() -> Self { OptProbe { seen: Cell::new(None), pad: TAG } } }
pub const RENDER: [[&str; %(ncodes)d]; 4] = %(render)s;
impl<const TAG: u8> Debug for OptProbe<TAG> {
    fn fmt(&self, f: &mut Formatter<'_>) -> fmt::Result {
        let o = f.options();
        self.seen.set(Some(o));
        let code: usize = match o.get_debug_as_hex() {
            Some(DebugAsHex::Lower) => 1,
            Some(DebugAsHex::Upper) => 2,
            None => match o.get_sign() {
                Some(Sign::Plus) => 3,
                Some(Sign::Minus) => 4,
                None => if o.get_sign_aware_zero_pad() { 5 } else {
                    match o.get_align() {
                        Some(Alignment::Left) => 6,
                        Some(Alignment::Right) => 7,
                        Some(Alignment::Center) => 8,
                        None => if o.get_width().is_some() { 9 } else if o.get_precision().is_some() { 10 }
                                else if o.get_fill() != ' ' { 11 } else { 0 },
                    }
                },
            },
        };
        f.write_str(RENDER[(TAG & 3) as usize][code])
    }
}

/// Probe with a multi-line rendering (exercises the newline logic of the padding adapters):
/// kind 0: one piece "a\nb"; kind 1: pieces "a\n", "b"; kind 2: "\n" (ends on a newline); other: "ab".
pub struct NlProbe(pub u8);
impl Debug for NlProbe {
    fn fmt(&self, f: &mut Formatter<'_>) -> fmt::Result {
        match self.0 {
            0 => f.write_str("a\nb"),
            1 => { f.write_str("a\n")?; f.write_str("b") }
            2 => f.write_str("\n"),
            _ => f.write_str("ab"),
        }
    }
}

/// Probe whose rendering is one symbolic byte (7-bit, may be a newline)
pub struct ByteProbe(pub u8);
impl Debug for ByteProbe {
    fn fmt(&self, f: &mut Formatter<'_>) -> fmt::Result {
        let b = [self.0 & 0x7f];
        // SAFETY: 7-bit ASCII
        f.write_str(unsafe { core::str::from_utf8_unchecked(&b) })
    }
}

/// one-byte rendering
pub struct Tiny;
impl Debug for Tiny {
    fn fmt(&self, f: &mut Formatter<'_>) -> fmt::Result { f.write_str("t") }
}

/// writes "e", then fails
pub struct ErrProbe;
impl Debug for ErrProbe {
    fn fmt(&self, f: &mut Formatter<'_>) -> fmt::Result { f.write_str("e")?; Err(fmt::Error) }
}

// ---- models of three functions of core (see the module docstring of props/C06.py) ----
/// core's own `memchr_naive`
pub fn naive_memchr(x: u8, text: &[u8]) -> Option<usize> {
    let mut i = 0;
    while i < text.len() {
        if text[i] == x { return Some(i); }
        i += 1;
    }
    None
}
/// `get_offset_len_noubcheck`, except that an EMPTY sub-slice gets a dangling (non-null, aligned) address
pub unsafe fn offset_len<T>(ptr: *const [T], offset: usize, len: usize) -> *const [T] {
    if len == 0 { core::ptr::slice_from_raw_parts(core::ptr::NonNull::<T>::dangling().as_ptr(), 0) }
    else { core::ptr::slice_from_raw_parts((ptr as *const T).add(offset), len) }
}
/// `fmt::Arguments::as_str` of an `Arguments` that has at least one argument (documented: `None`)
pub fn as_str_none<'a>(_a: &fmt::Arguments<'a>) -> Option<&'static str> where 'a: 'a { None }

pub fn opts(alt: bool) -> FormattingOptions { let mut o = FormattingOptions::new(); o.alternate(alt); o }
''' % dict(cap=CAP, ncodes=len(CODES),
           render="[" + ", ".join("[" + ", ".join('"%s%s"' % (t, c) for c in CODES) + "]" for t in TAGS) + "]")

STUB2 = "#[kani::stub(core::slice::memchr::memchr, naive_memchr)]\n    #[kani::stub(core::slice::index::get_offset_len_noubcheck, offset_len)]"
STUB3 = STUB2 + "\n    #[kani::stub(core::fmt::Arguments::as_str, as_str_none)]"
UNWIND = 12
PRETTY_CHUNK = 3
FLAT_GROUP = 2

# option kinds: name -> list of (label, statements applied to `o`); every variant is a separate concrete path
KINDS = {
    "default": [("", "")],
    "hex": [("x?", "o.debug_as_hex(Some(DebugAsHex::Lower));"), ("X?", "o.debug_as_hex(Some(DebugAsHex::Upper));")],
    "sign": [("+", "o.sign(Some(Sign::Plus));"), ("-", "o.sign(Some(Sign::Minus));")],
    "zero": [("0", "o.sign_aware_zero_pad(true);")],
    "align": [("<", "o.align(Some(Alignment::Left));"), (">", "o.align(Some(Alignment::Right));"), ("^", "o.align(Some(Alignment::Center));")],
    "width": [("w", "o.width(Some(kani::any()));")],
    "precision": [("p", "o.precision(Some(kani::any()));")],
    "fill": [("*", "o.fill('*');"), ("0", "o.fill('0');"), ("e-acute", "o.fill('\\u{e9}');"), ("max", "o.fill('\\u{10FFFF}');")],
}
KINDS["mix"] = KINDS["default"] + KINDS["hex"] + KINDS["width"] + KINDS["precision"]
KINDS["allkinds"] = [v for k in ("default", "hex", "sign", "zero", "align", "width", "precision", "fill") for v in KINDS[k]]
REAL_KINDS = ["default", "hex", "sign", "zero", "align", "width", "precision", "fill"]
KIND_TEXT = {"mix": "all other options default | hex-debug x? | X? | every width w: u16 | every precision p: u16",
             "allkinds": "each option kind in turn: default, x?, X?, +, -, 0, <, >, ^, every width, every precision, 4 fills",
             "default": "all other options default", "hex": "hex-debug x? | X?", "sign": "sign + | -", "zero": "zero-pad flag",
             "align": "alignment < | > | ^", "width": "every width w: u16", "precision": "every precision p: u16",
             "fill": "fill in {'*','0',U+E9,U+10FFFF}"}
BOUND_OPTS = "formatter flags: alternate fixed per harness, one other option kind at a time (width/precision values symbolic, fill sampled)"


def dispatch(name, alt, kind, args=""):
    """harness body that calls `<name>_body(o, split<args>)` once per variant of the option kind, each on its own path"""
    variants = KINDS[kind]
    a = "true" if alt else "false"
    if len(variants) == 1:
        return "        let mut o = opts(%s); %s\n        %s_body(o, kani::any()%s);" % (a, variants[0][1], name, args)
    arms = []
    for i, (lab, st) in enumerate(variants):
        pat = str(i) if i + 1 < len(variants) else "_"
        arms.append("            %s => { let mut o = opts(%s); %s %s_body(o, kani::any()%s); }" % (pat, a, st, name, args))
    return "        match kani::any::<u8>() {\n%s\n        }" % "\n".join(arms)


# ----------------------------------------------------------------------------------------------------
# (1) builder steps
# ----------------------------------------------------------------------------------------------------
def step_harness(name, alt, prefix, step_probe, fin, kind="default", empty_name=False, failing=False):
    """One builder step from the abstract state reached by `prefix` (concrete tiny probes), then a finisher."""
    mk = {"opt": ("let p = OptProbe::<1>::new(); let q = OptProbe::<1>::new();", "&p", "&q"),
          "nl": ("let p = NlProbe(nl); let q = NlProbe(nl);", "&p", "&q"),
          None: ("", None, None)}[step_probe]
    pre = "".join(" b.field(&%s);" % x for x in prefix)
    step_a = (" b.field(%s);" % mk[1]) if mk[1] else ""
    step_b = (" b.field(%s);" % mk[2]) if mk[2] else ""
    sink = "Sink::failing_at(lim)" if failing else "Sink::new()"
    if failing:
        covers = ['kani::cover!(ra.is_ok(), "Ok reachable");', 'kani::cover!(ra.is_err(), "Err reachable");']
    elif "ErrProbe" in prefix:
        covers = ['kani::cover!(ra.is_err(), "Err reachable");']
    else:
        covers = ['kani::cover!(ra.is_ok(), "Ok reachable");']
    extra = ""
    if step_probe == "opt" and "ErrProbe" not in prefix and not failing:
        extra = '            assert!(p.seen.get() == q.seen.get(), "the field is handed the same formatter options");\n'
    if step_probe == "nl":
        # every kind of multi-line rendering, each on its own concrete path
        call = "        match kani::any::<u8>() {\n" + "".join(
            "            %s => { %s_body(opts(%s), kani::any(), %d); }\n" % (str(k) if k < 3 else "_", name, "true" if alt else "false", k)
            for k in range(4)) + "        }"
        sig = "o: FormattingOptions, split: bool, nl: u8"
    else:
        call = dispatch(name, alt, kind)
        sig = "o: FormattingOptions, split: bool"
    src = '''    fn %(name)s_body(%(sig)s) {
        let name = "%(nm)s";
        %(lim)s%(mk)s
        let (mut sa, mut sb) = (%(sink)s, %(sink)s);
        let ra = { let mut f = Formatter::new(&mut sa, o); let mut b = derive_more::__private::debug_tuple(&mut f, name);%(pre)s%(step_a)s b.%(fin)s() };
        let rb = { let mut f = Formatter::new(&mut sb, o); let mut b = f.debug_tuple(name);%(pre)s%(step_b)s b.%(fin)s() };
        if split {   // reachability probes and the assertion on different values of a symbolic bool (playback de-duplication)
            %(covers)s
        } else {
            assert!(post_same(&ra, &sa, &rb, &sb), "bytes(derive_more builder) == bytes(core builder)");
%(extra)s        }
    }
    #[kani::proof]
    #[kani::unwind(%(unwind)d)]
    %(stub)s
    fn %(name)s() {
%(call)s
    }
''' % dict(name=name, sig=sig, nm="" if empty_name else "N", mk=mk[0], sink=sink, pre=pre, step_a=step_a, step_b=step_b, fin=fin,
           lim="let lim: usize = kani::any(); kani::assume(lim <= 30);\n        " if failing else "",
           covers="\n            ".join(covers), extra=extra, unwind=UNWIND, stub=STUB3, call=call)
    return src, len(covers)


STATE_TEXT = {(): "fields == 0, result Ok", ("Tiny",): "fields > 0 (one field `Tiny` added), result Ok",
              ("ErrProbe",): "fields > 0, result Err (a field whose Debug failed)"}


def builder_program(key, alt, specs):
    body = ""
    hs = []
    for sp in specs:
        hname, prefix, probe, fin = sp[:4]
        kw = sp[4] if len(sp) > 4 else {}
        s, nc = step_harness(hname, alt, prefix, probe, fin, **kw)
        body += s
        step = {"opt": ".field(&OptProbe)", "nl": ".field(&NlProbe(k)) for each multi-line kind k", None: "(no field)"}[probe]
        ob = "post_same(dm, core) for debug_tuple(f, %s) from state [%s]: %s then .%s(); alternate=%s, %s%s" % (
            '""' if kw.get("empty_name") else '"N"', STATE_TEXT[tuple(prefix)], step, fin, "on" if alt else "off",
            KIND_TEXT[kw.get("kind", "default")], "; sink fails at every byte position <= 30" if kw.get("failing") else "")
        hs.append(Harness(hname, ob, bounded="one builder step after a concrete prefix of <= 1 field; " + BOUND_OPTS,
                          fn="derive_more::__private::{debug_tuple, DebugTuple::field/finish/finish_non_exhaustive}, Padded::write_str (src/fmt.rs)",
                          cover_min=nc))
    src = "\nuse crate::common::*;\n\n#[cfg(kani)]\nmod proofs {\n    use super::*;\n" + body + "    // PLAYBACK-INSERTION-POINT\n}\n"
    return Program(key, "src/fmt.rs DebugTuple vs core::fmt::DebugTuple, one step per harness, alternate=%s" % ("on" if alt else "off"), src, hs)


def builder_programs(tier):
    FIN, FNE = "finish", "finish_non_exhaustive"
    progs = []
    for alt, tag in ((False, "flat"), (True, "pretty")):
        specs = [
            ("ob_k0_fin", [], None, FIN),
            ("ob_k0_fne", [], None, FNE),
            ("ob_k0_fin_e", [], None, FIN, dict(empty_name=True)),
            ("ob_k0_fne_e", [], None, FNE, dict(empty_name=True)),
            ("ob_first_opt_fin", [], "opt", FIN),
            ("ob_first_opt_fin_e", [], "opt", FIN, dict(empty_name=True)),
            ("ob_first_opt_fne", [], "opt", FNE),
            ("ob_first_opt_fne_e", [], "opt", FNE, dict(empty_name=True)),
            ("ob_first_nl_fin", [], "nl", FIN),
            ("ob_next_opt_fin", ["Tiny"], "opt", FIN),
            ("ob_next_opt_fin_e", ["Tiny"], "opt", FIN, dict(empty_name=True)),
            ("ob_next_opt_fne", ["Tiny"], "opt", FNE),
            ("ob_next_nl_fin", ["Tiny"], "nl", FIN),
            ("ob_next_nl_fne", ["Tiny"], "nl", FNE),
            ("ob_err_opt_fin", ["ErrProbe"], "opt", FIN),
            ("ob_err_opt_fne", ["ErrProbe"], "opt", FNE),
            ("ob_fail_first_fin", [], "opt", FIN, dict(failing=True)),
            ("ob_fail_next_fne", ["Tiny"], "opt", FNE, dict(failing=True)),
        ]
        if not alt and tier == "quick":
            # flat mode is cheap (no adapter): every option kind in one obligation
            specs.append(("ob_first_opt_fin_allkinds", [], "opt", FIN, dict(kind="allkinds")))
        else:
            for k in REAL_KINDS[1:]:
                specs.append(("ob_first_opt_fin_" + k, [], "opt", FIN, dict(kind=k)))
                if tier == "thorough":
                    specs.append(("ob_next_opt_fne_" + k, ["Tiny"], "opt", FNE, dict(kind=k)))
        progs.append(builder_program("bt_" + tag, alt, specs))
    return progs


# ----------------------------------------------------------------------------------------------------
# (2) generated fmt: type definitions
# ----------------------------------------------------------------------------------------------------
class Fd:
    """field: name (None = positional), type key, attribute: None | 'skip' | 'ignore' | ('fmt', literal, [args])"""
    def __init__(self, name, ty="O", attr=None):
        self.name, self.ty, self.attr = name, ty, attr


class Sh:
    """struct / variant shape"""
    def __init__(self, name, kind, fields=()):
        self.name, self.kind, self.fields = name, kind, list(fields)


def unraw(n):
    return n[2:] if n.startswith("r#") else n


def rust_ty(ty, idx):
    return {"O": "OptProbe<%d>" % (idx & 3), "NL": "NlProbe", "B": "ByteProbe", "V": "ByteProbe", "T": "T", "RT": "&'a T"}.get(ty, ty)


def field_decl(f, with_attrs, idx):
    a = ""
    if with_attrs and f.attr:
        if f.attr in ("skip", "ignore"):
            a = "#[debug(%s)] " % f.attr
        else:
            a = "#[debug(%s)] " % ", ".join([f.attr[1]] + list(f.attr[2]))
    t = rust_ty(f.ty, idx)
    return "%spub %s: %s" % (a, f.name, t) if f.name else "%spub %s" % (a, t)


def body_decl(sh, with_attrs, mod, in_enum=False):
    if sh.kind == "unit":
        return ""
    fs = [field_decl(f, with_attrs, i) for i, f in enumerate(sh.fields)]
    if in_enum:
        fs = [x.replace("pub ", "") for x in fs]
    if sh.kind == "tuple":
        return "(" + ", ".join(fs) + ")"
    return " { " + ", ".join(fs) + " }" if fs else " {}"


def has_attrs(shapes):
    return any(f.attr for s in shapes for f in s.fields)


def manual_chain(sh, access):
    """hand-written std builder chain: the reference for shapes with skipped / custom-formatted fields"""
    nm = unraw(sh.name)
    if sh.kind == "unit":
        return 'f.write_str("%s")' % nm
    skipped = any(f.attr in ("skip", "ignore") for f in sh.fields)
    out = 'f.debug_tuple("%s")' % nm if sh.kind == "tuple" else 'f.debug_struct("%s")' % nm
    for i, f in enumerate(sh.fields):
        if f.attr in ("skip", "ignore"):
            continue
        v = access(i, f)
        if f.attr:
            # inside the attribute `_i` / the field name denote `&self.<field>`: the caller binds exactly these names
            v = "&format_args!(%s)" % ", ".join([f.attr[1]] + list(f.attr[2]))
        if sh.kind == "tuple":
            out += ".field(%s)" % v
        else:
            out += '.field("%s", %s)' % (unraw(f.name), v)
    out += ".finish_non_exhaustive()" if skipped else ".finish()"
    return out


def manual_impl(tyname, generics, shapes, is_enum):
    gd, gu = generics
    bound = gd.replace("<T>", "<T: Debug>").replace(", T,", ", T: Debug,").replace(", T>", ", T: Debug>")
    if not is_enum:
        sh = shapes[0]
        binds = "".join("let %s = &self.%s; " % (("_%d" % j) if not g.name else g.name, g.name or str(j)) for j, g in enumerate(sh.fields))
        chain = manual_chain(sh, lambda i, f: ("_%d" % i) if not f.name else f.name)
        body = "%s%s" % (binds, chain)
    else:
        arms = []
        for sh in shapes:
            names = [("_%d" % j) if not g.name else g.name for j, g in enumerate(sh.fields)]
            if sh.kind == "unit":
                pat = "Self::%s" % sh.name
            elif sh.kind == "tuple":
                pat = "Self::%s(%s)" % (sh.name, ", ".join(names))
            else:
                pat = "Self::%s { %s }" % (sh.name, ", ".join(names))
            arms.append("%s => { %s }" % (pat, manual_chain(sh, lambda i, f: ("_%d" % i) if not f.name else f.name)))
        body = "match self { %s }" % " ".join(arms)
    return "    impl%s Debug for %s%s {\n        #[allow(unused_variables)]\n        fn fmt(&self, f: &mut Formatter<'_>) -> fmt::Result { %s }\n    }\n" % (
        bound, tyname, gu, body)


class Ty:
    def __init__(self, name, shapes, is_enum=False, generics=("", "", "")):
        self.name, self.shapes, self.is_enum, self.generics = name, shapes, is_enum, generics

    def decl(self, mod):
        derive = "derive_more::Debug" if mod == "dm" else "Debug"
        manual = mod == "sd" and has_attrs(self.shapes)
        gd = self.generics[0]
        head = "" if manual else "    #[derive(%s)]\n" % derive
        if self.is_enum:
            vs = ", ".join(s.name + body_decl(s, mod == "dm", mod, True) for s in self.shapes)
            d = "%s    pub enum %s%s { %s }\n" % (head, self.name, gd, vs)
        else:
            s = self.shapes[0]
            b = body_decl(s, mod == "dm", mod)
            d = "%s    pub struct %s%s%s%s\n" % (head, self.name, gd, b, "" if s.kind == "named" else ";")
        if manual:
            d += manual_impl(self.name, (gd, self.generics[1]), self.shapes, self.is_enum)
        return d

    def title(self):
        if self.is_enum:
            return "enum %s%s { %s }" % (self.name, self.generics[0], ", ".join(s.name + body_decl(s, True, "dm", True) for s in self.shapes))
        s = self.shapes[0]
        return ("struct %s%s%s" % (self.name, self.generics[0], body_decl(s, True, "dm"))).replace("pub ", "")


def value_expr(f, mod, idx, inner):
    if f.ty == "O":
        return "OptProbe::<%d>::new()" % (idx & 3)
    if f.ty == "T":
        return "OptProbe::<0>::new()"
    if f.ty == "RT":
        return "&rt0"
    if f.ty == "NL":
        return "NlProbe(nl)"
    if f.ty == "V":
        # equal field types, pairwise distinct symbolic values: a field taken from the wrong position changes the text
        return "ByteProbe(byte.wrapping_add(%d))" % idx
    if f.ty == "B":
        return "ByteProbe(byte)"
    if f.ty == "Tiny":
        return "Tiny"
    # a nested type of the same program
    return ctor(inner[f.ty], inner[f.ty].shapes[0], mod, inner)


def ctor(ty, sh, mod, inner):
    path = "%s::%s" % (mod, ty.name) + ty.generics[2] + ("::" + sh.name if ty.is_enum else "")
    if sh.kind == "unit":
        return path
    vals = [value_expr(f, mod, i, inner) for i, f in enumerate(sh.fields)]
    if sh.kind == "tuple":
        return "%s(%s)" % (path, ", ".join(vals))
    return "%s { %s }" % (path, ", ".join("%s: %s" % (f.name, v) for f, v in zip(sh.fields, vals)))


def uses(tys, key):
    return any(f.ty == key for t in tys for s in t.shapes for f in s.fields)


def type_program(key, title, tys, configs, top=None, extra_items="", extra_harness="", extra_hs=(), stub=STUB3, control=False,
                 contract=False, unwind=None):
    """tys: all types of the program (nested ones first); top: names of the types under test (default: all).
    configs: [(harness suffix, alt, kind)]"""
    inner = {t.name: t for t in tys}
    tops = [t for t in tys if top is None or t.name in top]
    dm = "".join(t.decl("dm") for t in tys)
    sd = "".join(t.decl("sd") for t in tys)
    nl_used, b_used = uses(tys, "NL"), uses(tys, "B") or uses(tys, "V")
    blocks = []
    labels = []
    for t in tops:
        for sh in t.shapes:
            lab = t.name + ("::" + sh.name if t.is_enum else "")
            blocks.append('''        {
            let rt0 = OptProbe::<0>::new();
            let (a, b) = (%s, %s);
            let ((ra, sa), (rb, sb)) = (render(&a, o), render(&b, o));
            if split { kani::cover!(ra.is_ok() && sa.len > 0, "rendered %s"); }
            else { assert!(post_same(&ra, &sa, &rb, &sb), "bytes(dm::%s) == bytes(sd::%s)"); }
        }''' % (ctor(t, sh, "dm", inner), ctor(t, sh, "sd", inner), lab, lab, lab))
            labels.append(lab)
    sig = "o: FormattingOptions, split: bool" + (", nl: u8" if nl_used else "") + (", byte: u8" if b_used else "")
    # pretty mode costs ~10 s of symbolic execution per value pair: at most PRETTY_CHUNK pairs per pretty harness
    chunks = [blocks[i:i + PRETTY_CHUNK] for i in range(0, len(blocks), PRETTY_CHUNK)]
    labs = [labels[i:i + PRETTY_CHUNK] for i in range(0, len(labels), PRETTY_CHUNK)]
    body = "    fn body(%s) {\n%s\n    }\n" % (sig, "\n".join(blocks))
    if len(chunks) > 1:
        for ci, ch in enumerate(chunks):
            body += "    fn body_%d(%s) {\n%s\n    }\n" % (ci + 1, sig, "\n".join(ch))
    # flat mode: at most FLAT_GROUP pretty-chunks (= 6 value pairs) per flat harness (several option variants each)
    fgroups = [list(range(i, min(i + FLAT_GROUP, len(chunks)))) for i in range(0, len(chunks), FLAT_GROUP)]
    if len(fgroups) > 1:
        argl = "o, split" + (", nl" if nl_used else "") + (", byte" if b_used else "")
        for gi, g in enumerate(fgroups):
            body += "    fn body_f%d(%s) { %s }\n" % (gi + 1, sig, " ".join("body_%d(%s);" % (ci + 1, argl) for ci in g))
    hs = []
    harn = ""
    for suffix, alt, kind in configs:
        if alt:
            parts = [("", "body", len(blocks), labels)] if len(chunks) == 1 else \
                [("_%d" % (ci + 1), "body_%d" % (ci + 1), len(ch), labs[ci]) for ci, ch in enumerate(chunks)]
        else:
            parts = [("", "body", len(blocks), labels)] if len(fgroups) == 1 else \
                [("_%d" % (gi + 1), "body_f%d" % (gi + 1), sum(len(chunks[ci]) for ci in g), [l for ci in g for l in labs[ci]])
                 for gi, g in enumerate(fgroups)]
        for psuf, bname, ncov, plabs in parts:
            name = "ob_" + suffix + psuf
            extra_args = (", nl" if nl_used else "") + (", byte" if b_used else "")
            pre = "        let byte: u8 = kani::any();\n" if b_used else ""
            call = dispatch(name, alt, kind, extra_args).replace(name + "_body", bname)
            if nl_used:
                # every kind of multi-line rendering, each on its own concrete path
                call = "        match kani::any::<u8>() {\n" + "".join(
                    "            %s => { let nl: u8 = %d;\n    %s\n            }\n" % (str(k) if k < 3 else "_", k, call.replace("\n", "\n    "))
                    for k in range(4)) + "        }"
            harn += "    #[kani::proof]\n    #[kani::unwind(%d)]\n    %s\n    fn %s() {\n%s%s\n    }\n" % (unwind or UNWIND, stub, name, pre, call)
            cfg = "{:%s?} (alternate=%s, %s)" % ("#" if alt else "", "on" if alt else "off", KIND_TEXT[kind])
            hs.append(Harness(name, "forall field values of the probe types. post_same(dm::T, sd::T) under %s; T in {%s}" % (cfg, ", ".join(plabs)),
                              fn="generated <dm::T as Debug>::fmt (impl/src/fmt/debug.rs) + src/fmt.rs DebugTuple", cover_min=ncov))
    if control:
        t = tops[0]
        sh = t.shapes[-1]
        harn += '''    #[kani::proof]
    #[kani::unwind(%d)]
    %s
    fn control_false_post() {
        let o = opts(false);%s
        let (a, b) = (%s, sd::Other(OptProbe::<0>::new()));
        let ((ra, sa), (rb, sb)) = (render(&a, o), render(&b, o));
        assert!(post_same(&ra, &sa, &rb, &sb), "deliberately false: a differently named type prints the same");
    }
''' % (UNWIND, stub, (" let nl: u8 = 3;" if nl_used else "") + (" let byte: u8 = 65;" if b_used else ""), ctor(t, sh, "dm", inner))
        sd += "    #[derive(Debug)]\n    pub struct Other(pub OptProbe<0>);\n"
        hs.append(Harness("control_false_post", "deliberately false post-condition (a differently named type prints the same) must FAIL",
                          kind="negative_control"))
    src = "\nuse crate::common::*;\n#[allow(non_camel_case_types, dead_code)]\npub mod dm {\n    use crate::common::*;\n%s}\n" \
          "#[allow(non_camel_case_types, dead_code)]\npub mod sd {\n    use crate::common::*;\n%s}\n%s\n#[cfg(kani)]\nmod proofs {\n    use super::*;\n%s%s%s" \
          "    // PLAYBACK-INSERTION-POINT\n}\n" % (dm, sd, extra_items, body, harn, extra_harness)
    return Program(key, title or " | ".join(t.title() for t in tys), src, hs + list(extra_hs))


def O(name=None, attr=None):
    return Fd(name, "O", attr)


def st(name, kind, fields=(), generics=("", "", "")):
    return Ty(name, [Sh(name, kind, fields)], generics=generics)


QUICK_CFG = [("flat", False, "mix"), ("pretty", True, "default")]
PRETTY_OPT_QUICK = [("pretty_hex", True, "hex"), ("pretty_width", True, "width")]


def all_cfg():
    out = []
    for k in REAL_KINDS:
        out.append(("flat" if k == "default" else "flat_" + k, False, k))
    for k in REAL_KINDS:
        out.append(("pretty" if k == "default" else "pretty_" + k, True, k))
    return out


def skip_subsets(kind, n, prefix="S"):
    """all subsets of skipped fields of an n-field struct, one type per subset"""
    tys = []
    names = "abc"
    for bits in itertools.product([False, True], repeat=n):
        nm = prefix + "".join("x" if b else "o" for b in bits)
        fs = [Fd(names[i] if kind == "named" else None, "O", ("skip" if (i + sum(bits)) % 2 == 0 else "ignore") if bits[i] else None)
              for i in range(n)]
        tys.append(st(nm, kind, fs))
    return tys


def type_programs(tier):
    P = []
    # flat mode is cheap: the option kinds share one obligation; pretty mode: one obligation per kind (they isolate finding 2)
    if tier == "thorough":
        cfg = [("flat", False, "allkinds"), ("pretty", True, "default")]
        cfg_po = cfg + PRETTY_OPT_QUICK
        cfg_all = [("flat", False, "allkinds")] + [c for c in all_cfg() if c[1]]      # every option kind in pretty mode as well
    else:
        cfg = QUICK_CFG
        cfg_po = cfg_all = QUICK_CFG + PRETTY_OPT_QUICK

    def add(key, tys, title=None, configs=None, **kw):
        P.append(type_program(key, title, tys, configs or cfg, **kw))

    # ---- builders not involved: unit / () / {} and write_str
    add("s_unit_like", [st("Unit", "unit"), st("Tup0", "tuple"), st("Brc0", "named")])
    # ---- tuple structs 1..3 (the representative carries the contract wrapper and the negative control)
    add("s_tuple", [st("T1", "tuple", [O()]), st("T2", "tuple", [O(), O()]), st("T3", "tuple", [O(), O(), O()])],
        configs=cfg_all, control=True)
    add("s_named", [st("N1", "named", [O("a")]), st("N2", "named", [O("a"), O("b")]), st("N3", "named", [O("a"), O("b"), O("c")])],
        configs=cfg_all if tier == "thorough" else QUICK_CFG + [("pretty_width", True, "width")])
    # ---- multi-line and symbolic-byte field values
    add("s_tuple_nl", [st("TN", "tuple", [Fd(None, "NL"), O()])])
    add("s_named_nl", [st("NN", "named", [O("a"), Fd("b", "NL")])])
    # (flat only: a symbolic byte pushed through the padding adapters did not terminate in 420 s; NlProbe covers them)
    add("s_byte", [st("TB", "tuple", [Fd(None, "B")]), st("NB", "named", [Fd("a", "B")])], configs=[c for c in cfg if not c[1]])
    # ---- enums of all variant kinds
    variants = [Sh("U", "unit"), Sh("T0", "tuple"), Sh("B0", "named"),
                Sh("T1", "tuple", [O()]), Sh("T2", "tuple", [O(), O()]), Sh("T3", "tuple", [O(), O(), O()]),
                Sh("N1", "named", [O("a")]), Sh("N2", "named", [O("a"), O("b")])]     # chunks of 3: field-less | tuple | named
    add("e_all_kinds", [Ty("E", variants, is_enum=True)], configs=cfg_po)
    # ---- nesting depth 2 (a derive_more::Debug type inside another; both std in the reference)
    inner_t, inner_n = st("In", "tuple", [O()]), st("Im", "named", [O("x")])
    add("n_tuple_in_tuple", [inner_t, st("Out", "tuple", [Fd(None, "In"), O()])], top=["Out"], configs=cfg_po)
    add("n_tuple_in_named", [inner_t, st("Out", "named", [Fd("i", "In"), O("b")])], top=["Out"], configs=cfg_po)
    add("n_named_in_tuple", [inner_n, st("Out", "tuple", [Fd(None, "Im"), O()])], top=["Out"])
    add("n_named_in_named", [inner_n, st("Out", "named", [Fd("i", "Im")])], top=["Out"])
    add("n_enum_nested", [inner_t, Ty("E", [Sh("V", "tuple", [Fd(None, "In")]), Sh("W", "named", [Fd("i", "In")])], is_enum=True)], top=["E"])
    # ---- generics
    add("g_type_param", [st("G1", "tuple", [Fd(None, "T")], generics=("<T>", "<T>", "")),
                         st("G2", "named", [Fd("a", "T"), O("b")], generics=("<T>", "<T>", ""))])
    add("g_lt_const", [st("G3", "tuple", [Fd(None, "RT")], generics=("<'a, T, const N: usize>", "<'a, T, N>", "::<OptProbe<0>, 2>")),
                       st("G4", "named", [Fd("a", "RT"), O("b")], generics=("<'a, T: 'a, const N: usize>", "<'a, T, N>", "::<OptProbe<0>, 3>"))])
    # a reference to a type parameter next to the parameter itself (std accepts it)
    add("g_ref_and_owned", [st("GR", "tuple", [Fd(None, "RT"), Fd(None, "T")], generics=("<'a, T>", "<'a, T>", "")),
                            st("GS", "named", [Fd("a", "T"), Fd("b", "RT")], generics=("<'a, T>", "<'a, T>", ""))],
        configs=[c for c in cfg if c[0] in ("flat", "pretty")])  # (does not expand on the tree this was written against)
    add("g_enum", [Ty("GE", [Sh("A", "tuple", [Fd(None, "T")]), Sh("B", "named", [Fd("x", "T")]), Sh("C", "unit")], is_enum=True,
                      generics=("<T>", "<T>", "::<OptProbe<0>>"))])
    # ---- raw identifiers
    add("raw_field_names", [st("RF", "named", [O("r#type"), O("r#in")]),
                            Ty("RE", [Sh("V", "named", [O("r#struct")])], is_enum=True)])
    raw_cfg = cfg
    add("raw_type_unit", [st("r#type", "unit")], configs=raw_cfg)
    add("raw_type_tuple", [st("r#struct", "tuple", [O()]), st("r#while", "tuple"), st("r#loop", "tuple", [O(attr="skip"), O()]),
                           st("r#for", "tuple", [O(attr=("fmt", '"<{:?}>"', ["_0"])), O(attr="ignore")])], configs=raw_cfg)
    add("raw_type_named", [st("r#match", "named", [O("r#in")])], configs=raw_cfg)
    add("raw_variants", [Ty("E", [Sh("r#fn", "unit"), Sh("r#if", "tuple", [O()]), Sh("r#loop", "named", [O("r#in")])], is_enum=True),
                         Ty("F", [Sh("r#while", "tuple"), Sh("r#do", "tuple", [O(), O(attr="skip")]),
                                  Sh("r#try", "tuple", [O(attr=("fmt", '"[{:?}]"', ["_0"]))]), Sh("r#box", "named", [O("a", "skip")])], is_enum=True)],
        configs=raw_cfg)
    # ---- skipped fields: all subsets
    add("k_tuple2", skip_subsets("tuple", 2), configs=cfg_po if tier == "thorough" else cfg)
    add("k_named2", skip_subsets("named", 2))
    add("k_tuple3", skip_subsets("tuple", 3), configs=cfg if tier == "thorough" else QUICK_CFG[:1])
    add("k_named3", skip_subsets("named", 3), configs=cfg if tier == "thorough" else QUICK_CFG[:1])
    add("k_one_field", skip_subsets("tuple", 1, "T") + skip_subsets("named", 1, "N"))
    add("k_enum", [Ty("KE", [Sh("A", "tuple", [O(), O(attr="skip")]), Sh("B", "named", [O("a", "ignore"), O("b")]),
                             Sh("C", "tuple", [O(attr="skip")]), Sh("D", "named", [O("a", "skip")]), Sh("E", "tuple", [O()])], is_enum=True)])
    # a skipped field BEFORE / BETWEEN shown ones in tuple VARIANTS (patterns bind by position): distinct probe types ...
    add("k_enum_pos", [Ty("KP", [Sh("Lead", "tuple", [O(attr="skip"), O()]), Sh("Mid", "tuple", [O(), O(attr="ignore"), O()]),
                                 Sh("Two", "tuple", [O(attr="skip"), O(attr="ignore"), O()]),
                                 Sh("LeadN", "named", [O("a", "ignore"), O("b")]), Sh("MidN", "named", [O("a"), O("b", "skip"), O("c")])],
                          is_enum=True)])
    # ... and fields of EQUAL type holding pairwise distinct symbolic values (flat: a value read back from an enum payload is symbolic)
    add("k_enum_pos_val", [Ty("KV", [Sh("Lead", "tuple", [Fd(None, "V", "skip"), Fd(None, "V")]),
                                     Sh("Mid", "tuple", [Fd(None, "V"), Fd(None, "V", "ignore"), Fd(None, "V")]),
                                     Sh("Tail", "tuple", [Fd(None, "V"), Fd(None, "V"), Fd(None, "V", "skip")])], is_enum=True),
                           st("SV", "tuple", [Fd(None, "V", "ignore"), Fd(None, "V"), Fd(None, "V", "skip"), Fd(None, "V")])],
        configs=[c for c in cfg if not c[1]])
    # ---- unit struct / unit variant inside a tuple holder (std writes the bare name: width and precision are ignored)
    add("n_unit_in_tuple", [st("Un", "unit"), Ty("EU", [Sh("U", "unit"), Sh("W", "unit")], is_enum=True),
                            st("Hold", "tuple", [Fd(None, "Un"), Fd(None, "EU"), O()]),
                            st("HoldN", "named", [Fd("u", "Un"), Fd("e", "EU")])], top=["Hold", "HoldN", "EU"])
    # ---- raw-identifier field names that ALSO carry a field-level format (with and without a skipped sibling)
    add("raw_field_fmt", [st("RM", "named", [O("r#match", ("fmt", '"<{:?}>"', ["r#match"])), O("r#in")]),
                          st("RS", "named", [O("r#type", ("fmt", '"{:?}!"', ["r#type"])), O("b", "skip")]),
                          Ty("RV", [Sh("V", "named", [O("r#in", ("fmt", '"[{:?}]"', ["r#in"])), O("r#loop", "ignore")]),
                                    Sh("W", "named", [O("a"), O("r#fn", ("fmt", '"{:?}|{:?}"', ["a", "r#fn"]))])], is_enum=True)])
    # ---- field-level format: only that field's value is replaced
    add("f_tuple_fmt", [st("FT", "tuple", [O(attr=("fmt", '"<{:?}>"', ["_0"])), O()]),
                        st("FU", "tuple", [O(), O(attr=("fmt", '"{_1:?}!"', []))])])
    add("f_named_fmt", [st("FN", "named", [O("a"), O("b", ("fmt", '"<{b:?}|{:?}>"', ["a"]))]),
                        st("FS", "named", [O("a", ("fmt", '"{:?}"', ["a"])), O("b", "skip")])])
    add("f_enum_fmt", [Ty("FE", [Sh("A", "tuple", [O(attr=("fmt", '"[{:?}]"', ["_0"]))]), Sh("B", "named", [O("x", ("fmt", '"{x:?}."', []))])],
                          is_enum=True)])
    # a skipped field followed LATER by a format-attribute field (no further skipped field): the output must still be closed by `..`
    def F(name=None, lit='"<{:?}>"', arg=None):
        return O(name, ("fmt", lit, [arg]))
    add("f_skip_fmt_named", [st("SF", "named", [O("a", "skip"), F("b", arg="b")]),
                             st("SN", "named", [O("a", "skip"), O("b"), F("c", arg="c")]),
                             st("SM", "named", [O("a"), O("b", "ignore"), F("c", '"{:?}!"', "c")]),
                             st("SP", "named", [O("a", "ignore"), F("b", arg="b"), O("c")])])
    add("f_skip_fmt_tuple", [st("TS", "tuple", [O(attr="skip"), F(arg="_1")]),
                             st("TM", "tuple", [O(), O(attr="ignore"), F(lit='"{:?}!"', arg="_2")]),
                             st("TP", "tuple", [O(attr="ignore"), F(arg="_1"), O()]),
                             Ty("EV", [Sh("T", "tuple", [O(attr="skip"), F(arg="_1")]),
                                       Sh("N", "named", [O("a", "ignore"), F("b", '"{:?}!"', "b")]),
                                       Sh("M", "tuple", [O(), O(attr="skip"), O(), F(arg="_3")])], is_enum=True)])
    # literal-only format: `Arguments::as_str` must answer Some(..) here, so its model is not used
    add("f_literal", [st("FL", "tuple", [O(attr=("fmt", '"lit"', [])), O()]), st("FM", "named", [O("a", ("fmt", '"lit"', []))])],
        configs=[c for c in cfg if not c[1]], stub=STUB2)
    # one write_str with an interior newline and no trailing newline, produced by a literal-only field format, in pretty mode.
    # `Arguments::as_str` must answer Some(..) for the literal, so its model is not used: the spurious branch inside
    # `fmt::write(Padded, "{value:#?}")` is explored up to the (small) unwind bound
    add("f_literal_nl", [st("FP", "tuple", [O(attr=("fmt", '"h\\nt"', []))])],
        configs=[("flat", False, "default"), ("pretty", True, "default")], stub=STUB2, unwind=5)
    return P


# ----------------------------------------------------------------------------------------------------
# representative with a real Kani contract, and a `write!`-level harness
# ----------------------------------------------------------------------------------------------------
def contract_program():
    src = r'''
use crate::common::*;
#[allow(dead_code)]
pub mod dm {
    use crate::common::*;
    #[derive(derive_more::Debug)]
    pub struct Rep(pub Tiny, pub NlProbe);
}
#[allow(dead_code)]
pub mod sd {
    use crate::common::*;
    #[derive(Debug)]
    pub struct Rep(pub Tiny, pub NlProbe);
}
/// the identical definition deriving std's Debug, holding the same field values
pub fn to_std(v: &dm::Rep) -> sd::Rep { sd::Rep(Tiny, NlProbe(v.1 .0)) }

/// Post-condition of `<dm::Rep as Debug>::fmt` run on a fresh sink under options `o`
pub fn post_fmt(v: &dm::Rep, o: FormattingOptions, r: &(fmt::Result, Sink)) -> bool {
    let (rb, sb) = render(&to_std(v), o);
    post_same(&r.0, &r.1, &rb, &sb)
}

#[cfg_attr(kani, kani::ensures(|r| post_fmt(v, o, r)))]
pub fn fmt_contract(v: &dm::Rep, o: FormattingOptions) -> (fmt::Result, Sink) { render(v, o) }

#[cfg(kani)]
mod proofs {
    use super::*;
    /// flat, every width and precision
    #[kani::proof_for_contract(fmt_contract)]
    #[kani::unwind(%(unwind)d)]
    %(stub)s
    fn ob_contract() {
        let mut o = opts(false);
        o.width(Some(kani::any()));
        o.precision(Some(kani::any()));
        fmt_contract(&dm::Rep(Tiny, NlProbe(3)), o);
    }
    /// through the `format_args!` machinery (what `format!("{:?} {:#?} ..", v)` runs)
    #[kani::proof]
    #[kani::unwind(%(unwind)d)]
    %(stub)s
    fn ob_write_macro() {
        let a = dm::Rep(Tiny, NlProbe(0));
        let b = to_std(&a);
        let (mut sa, mut sb) = (Sink::new(), Sink::new());
        let w: usize = 5;
        let ra = fmt::write(&mut sa, format_args!("[{:?}|{:x?}|{:w$?}|{:#?}]", a, a, a, a));
        let rb = fmt::write(&mut sb, format_args!("[{:?}|{:x?}|{:w$?}|{:#?}]", b, b, b, b));
        if kani::any::<bool>() { kani::cover!(ra.is_ok() && sa.len > 20, "rendered"); }
        else { assert!(post_same(&ra, &sa, &rb, &sb), "bytes(format_args!(.., dm)) == bytes(format_args!(.., sd))"); }
    }
    // PLAYBACK-INSERTION-POINT
}
''' % dict(unwind=UNWIND, stub=STUB3)
    hs = [Harness("ob_contract", "#[kani::ensures(post_fmt)] on fmt_contract (thin wrapper of <dm::Rep as Debug>::fmt on a fresh sink), "
                  "proof_for_contract; alternate=off, every width and precision, field values (Tiny, NlProbe(3)) (probes without interior mutability: the contract has no modifies clause)", kind="contract",
                  fn="fmt_contract (thin wrapper of the generated <dm::Rep as Debug>::fmt)"),
          Harness("ob_write_macro", "post_same of fmt::write(format_args!(\"[{:?}|{:x?}|{:w$?}|{:#?}]\", v x4)) for dm::Rep / sd::Rep",
                  fn="generated <dm::Rep as Debug>::fmt through core::fmt::write", cover_min=1)]
    return Program("rep_contract", "struct Rep(Tiny, NlProbe) -- representative with #[kani::ensures]", src, hs)


def family(tier, seed):
    tp = type_programs(tier)
    # generated-code programs first (the raw-identifier ones in front), the builder steps last: the core replays only the first
    # few counterexamples natively
    progs = [p for p in tp if p.key.startswith("raw_")] + [p for p in tp if not p.key.startswith("raw_")] + \
        [contract_program()] + builder_programs(tier)
    only = os.environ.get("C06_ONLY")          # development aid: restrict to programs whose key starts with one of the prefixes
    if only:
        progs = [p for p in progs if any(p.key.startswith(x) for x in only.split(","))]
    skip = os.environ.get("C06_SKIP")          # development aid: drop the obligations `program/harness,...` (e.g. the open known findings)
    if skip:
        drop = set(skip.split(","))
        for p in progs:
            p.harnesses = [h for h in p.harnesses if "%s/%s" % (p.key, h.name) not in drop]
    n_b = sum(len(p.harnesses) for p in progs if p.key.startswith("bt_"))
    return Family(
        "C06", progs, common_src=COMMON,
        crate_attrs="#![feature(formatting_options)]",
        kani_flags=["-Z", "function-contracts", "-Z", "stubbing", "--no-assertion-reach-checks"], unwind=UNWIND,
        level="proof", harness_timeout=420,
        functions_under_contract=[
            "derive_more::__private::debug_tuple, DebugTuple::{field, finish, finish_non_exhaustive}, Padded::write_str (src/fmt.rs) -- "
            "run-time code of the crate, against core::fmt::DebugTuple",
            "generated <T as Debug>::fmt for every struct / enum of the family (expanded by /repo/impl/src/fmt/debug.rs)",
        ],
        trusted_base=[
            "core::fmt::{Formatter::debug_tuple, debug_struct, DebugTuple, DebugStruct} and #[derive(Debug)] of the toolchain as the definition of std's output",
            "models used inside Kani only (never in the native replay): core::slice::memchr::memchr := core's memchr_naive; "
            "core::slice::index::get_offset_len_noubcheck gives empty sub-slices a dangling non-null address; "
            "fmt::Arguments::as_str := None in harnesses where every Arguments reaching fmt::write has an argument",
        ],
        assumptions=[
            "formatter states: alternate fixed per harness; the other options one kind at a time (hex-debug, sign, zero-pad, alignment, "
            "width: every u16, precision: every u16, fill in {'*','0',U+E9,U+10FFFF}); combinations of two non-default kinds are not covered",
            "field values are probe types: constant rendering per (tag, first non-default option), four multi-line renderings "
            "('a\\nb', 'a\\n'+'b', '\\n', 'ab'), one symbolic 7-bit byte",
            "the whole-builder equivalence for k fields is the composition of the step contracts over the state (result, fields==0, fields==1, "
            "empty_name): argued, not proved; steps are verified from the states reached by a concrete prefix of <= 1 field",
            "generic programs are verified at the instantiation T = OptProbe<0>",
        ],
        rule="builder: one obligation per (alternate, step, abstract state, finisher, name, option kind) = %d; generated code: one program per "
             "group of type definitions, one obligation per formatter configuration, each over all values of the probe field types; "
             "distinct = harnesses discharged" % n_b,
    )
