"""C12 -- TryFrom<repr> is the exact inverse of the enum-to-integer cast.

Contract on the generated `try_from` (the real macro of /repo expands each enum below):

    post_try_from(n, r) :=
        match r { Ok(v)  => fieldless(v) && discr(v) == n,
                  Err(e) => e.input == n && forall fieldless variant u: discr(u) != n }

`discr` is the language's own discriminant (`core::intrinsics::discriminant_value`), never a
re-implementation of the expander's arithmetic. `n` ranges over the WHOLE repr type in one query.
"""
from vlib.core import Family, Program, Harness

COMMON = r'''
pub use derive_more::TryFrom;
pub use derive_more::TryFromReprError;
pub const K5: u8 = 5;
pub const NEG: i32 = -40;
pub const NEG16: i16 = -100;
'''

# (key, title, repr attr lines, repr type, generics decl, generics use, variants)
# variant: (name, kind, discriminant or None)  kind in unit | tuple0 | brace0 | tuple | named
def V(name, kind="unit", d=None):
    return (name, kind, d)


def enums(tier):
    E = []

    def add(key, title, attrs, rty, variants, gdecl="", guse="", phantom=None, where=""):
        E.append(dict(key=key, title=title, attrs=attrs, rty=rty, variants=variants, gdecl=gdecl, guse=guse, where=where))

    add("e_i16_mixed", "#[repr(i16)] enum {A=-3,B,C=7,D}", ["#[repr(i16)]"], "i16",
        [V("A", d="-3"), V("B"), V("C", d="7"), V("D")])
    add("e_default_isize", "enum {A,B,C} (no repr => isize)", [], "isize", [V("A"), V("B"), V("C")])
    add("e_u8_fields_interleaved", "#[repr(u8)] enum {A=1,B(u8),C,D{x:u16},E=10,F(),G{},H(u8),I}",
        ["#[repr(u8)]"], "u8",
        [V("A", d="1"), V("B", "tuple"), V("C"), V("D", "named"), V("E", d="10"), V("F", "tuple0"), V("G", "brace0"),
         V("H", "tuple"), V("I")])
    add("e_u8_shift_expr", "#[repr(u8)] enum {A=1<<2,B,C=2*3+1,D,E=0x10|0x20,F}", ["#[repr(u8)]"], "u8",
        [V("A", d="1 << 2"), V("B"), V("C", d="2 * 3 + 1"), V("D"), V("E", d="0x10 | 0x20"), V("F")])
    add("e_u8_const_ref", "#[repr(u8)] enum {A=K5,B,C=K5*2,D}", ["#[repr(u8)]"], "u8",
        [V("A", d="K5"), V("B"), V("C", d="K5 * 2"), V("D")])
    add("e_i32_neg_expr", "#[repr(i32)] enum {A=NEG,B,C=-(2+1),D,E=i32::MAX}", ["#[repr(i32)]"], "i32",
        [V("A", d="NEG"), V("B"), V("C", d="-(2 + 1)"), V("D"), V("E", d="i32::MAX")])
    add("e_reprc_u16", "#[repr(C, u16)] enum {A=300,B,C(u8),D}", ["#[repr(C, u16)]"], "u16",
        [V("A", d="300"), V("B"), V("C", "tuple"), V("D")])
    add("e_two_repr_attrs", "#[repr(u32)] #[repr(align(16))]? -> #[repr(C)] #[repr(u32)] enum {A=7,B{x:u16},C}",
        ["#[repr(C)]", "#[repr(u32)]"], "u32", [V("A", d="7"), V("B", "named"), V("C")])
    add("e_int_then_c_hint", "#[repr(u8, C)] enum {A=200,B(u8),C} (integer hint FIRST, other hint after it in the same attribute)",
        ["#[repr(u8, C)]"], "u8", [V("A", d="200"), V("B", "tuple"), V("C")])
    add("e_int_then_align_hint", "#[repr(i16, align(8))] enum {A=-300,B,C=300}", ["#[repr(i16, align(8))]"], "i16",
        [V("A", d="-300"), V("B"), V("C", d="300")])
    add("e_usize", "#[repr(usize)] enum {A,B=usize::MAX-1,C}", ["#[repr(usize)]"], "usize", [V("A"), V("B", d="usize::MAX - 1"), V("C")])
    add("e_isize", "#[repr(isize)] enum {A=isize::MIN,B,C=-1,D}", ["#[repr(isize)]"], "isize",
        [V("A", d="isize::MIN"), V("B"), V("C", d="-1"), V("D")])
    add("e_three_repr_attrs", "#[repr(C)] #[repr(i8)] #[repr(align(4))] enum {A=-1,B{x:u16},C}", ["#[repr(C)]", "#[repr(i8)]", "#[repr(align(4))]"], "i8",
        [V("A", d="-1"), V("B", "named"), V("C")])
    add("e_width_dependent_expr", "#[repr(u8)] enum {Half = !0 >> 1, Next, Top = !0, }-like: the value of the explicit expression depends on the repr type",
        ["#[repr(u8)]"], "u8", [V("Half", d="!0 >> 1"), V("Next"), V("Data", "tuple"), V("Top", d="!0")])
    add("e_width_dependent_expr_u16", "#[repr(u16)] enum {Mid = !0 / 2 + 1, Next, Low = 1}", ["#[repr(u16)]"], "u16",
        [V("Mid", d="!0 / 2 + 1"), V("Next"), V("Low", d="1")])
    add("e_fields_then_explicit_then_implicit", "#[repr(u8)] enum {Ping, Data(u8), Ctrl = 0x10, CtrlAck, CtrlNak, More{x:u16}, Last}", ["#[repr(u8)]"], "u8",
        [V("Ping"), V("Data", "tuple"), V("Ctrl", d="0x10"), V("CtrlAck"), V("CtrlNak"), V("More", "named"), V("Last")])
    add("e_generic_where_trait", "#[repr(u8)] enum G<T, const N: usize> where T: Copy + Default, [u8; N]: Default {A=1,B(T,[u8;N]),C}",
        ["#[repr(u8)]"], "u8", [V("A", d="1"), V("B", "t_arr"), V("C")], gdecl="<T, const N: usize>", guse="<u8, 3>",
        where="where T: Copy + Default, [u8; N]: Default ")
    add("e_raw_ident_variants", "#[repr(u8)] enum {r#if = 3, r#type, Plain(u8), r#fn{}, r#loop()}", ["#[repr(u8)]"], "u8",
        [V("r#if", d="3"), V("r#type"), V("Plain", "tuple"), V("r#fn", "brace0"), V("r#loop", "tuple0")])
    add("e_case_only_differences", "#[repr(u16)] enum {Kb = 1, KB, Data(u8), Http = 80, HTTP}", ["#[repr(u16)]"], "u16",
        [V("Kb", d="1"), V("KB"), V("Data", "tuple"), V("Http", d="80"), V("HTTP")])
    add("e_literal_then_const_then_implicit", "#[repr(i16)] enum {A = 1, B, C = NEG16, D, E = NEG16 * 2 + 1, F(), G, H = -3, I}", ["#[repr(i16)]"], "i16",
        [V("A", d="1"), V("B"), V("C", d="NEG16"), V("D"), V("E", d="NEG16 * 2 + 1"), V("F", "tuple0"), V("G"), V("H", d="-3"), V("I")])
    add("e_dataless_const_generic", "#[repr(u8)] enum G<const N: usize> {A, B = 7, C}", ["#[repr(u8)]"], "u8",
        [V("A"), V("B", d="7"), V("C")], gdecl="<const N: usize>", guse="<3>")
    add("e_explicit_on_empty_tuple_brace", "#[repr(i8)] enum {Tuple() = -5, Next, Brace{} = 40, Last, Data(u8)}", ["#[repr(i8)]"], "i8",
        [V("Tuple", "tuple0", "-5"), V("Next"), V("Brace", "brace0", "40"), V("Last"), V("Data", "tuple")])
    add("e_first_has_fields", "#[repr(i8)] enum {A(u8),B,C=-3,D{},E}", ["#[repr(i8)]"], "i8",
        [V("A", "tuple"), V("B"), V("C", d="-3"), V("D", "brace0"), V("E")])
    add("e_generic_lt_const", "#[repr(u8)] enum G<'a, const N: usize> {A=1,B(&'a [u8;N]),C}", ["#[repr(u8)]"], "u8",
        [V("A", d="1"), V("B", "ref_arr"), V("C")], gdecl="<'a, const N: usize>", guse="<'static, 2>")
    add("e_generic_ty", "#[repr(i64)] enum G<T> {A=-5,B(T),C}", ["#[repr(i64)]"], "i64",
        [V("A", d="-5"), V("B", "generic"), V("C")], gdecl="<T>", guse="<u8>")
    if tier == "thorough":
        lim = {"u8": ("0", "u8::MAX"), "i8": ("i8::MIN", "i8::MAX"), "u16": ("0", "u16::MAX"), "i16": ("i16::MIN", "i16::MAX"),
               "u32": ("0", "u32::MAX"), "i32": ("i32::MIN", "i32::MAX"), "u64": ("0", "u64::MAX"), "i64": ("i64::MIN", "i64::MAX"),
               "u128": ("0", "u128::MAX"), "i128": ("i128::MIN", "i128::MAX"), "usize": ("0", "usize::MAX"),
               "isize": ("isize::MIN", "isize::MAX")}
        for t, (lo, hi) in lim.items():
            if t in ("u128", "i128"):
                # Kani 0.68 ICE (codegen_get_discriminant: TryFromIntError) on enums with 128-bit discriminant values beyond 64 bits:
                # tool limit; 128-bit reprs are covered by e_mid_* (small discriminants, full 128-bit input domain) only
                add("e_mid_" + t, "#[repr(%s)] enum {A,B=100,C{},D(),E=50,F}" % t, ["#[repr(%s)]" % t], t,
                    [V("A"), V("B", d="100"), V("C", "brace0"), V("D", "tuple0"), V("E", d="50"), V("F")])
                continue
            add("e_ext_" + t, "#[repr(%s)] enum {A=MIN,B,C(u8),D,E=MAX-1,F}" % t, ["#[repr(%s)]" % t], t,
                [V("A", d=lo), V("B"), V("C", "tuple"), V("D"), V("E", d=hi + " - 1"), V("F")])
            add("e_mid_" + t, "#[repr(%s)] enum {A,B=100,C{},D(),E=50,F}" % t, ["#[repr(%s)]" % t], t,
                [V("A"), V("B", d="100"), V("C", "brace0"), V("D", "tuple0"), V("E", d="50"), V("F")])
        add("e_single", "#[repr(u16)] enum {Only=0xBEEF}", ["#[repr(u16)]"], "u16", [V("Only", d="0xBEEF")])
        add("e_no_fieldless", "#[repr(u8)] enum {A(u8)=3,B{x:u8}}", ["#[repr(u8)]"], "u8", [V("A", "tuple", "3"), V("B", "named")])
        add("e_generic_where", "#[repr(i16)] enum G<'a, T: Copy, const N: usize> where T: 'a {A=-1,B(&'a T,[u8;N]),C}",
            ["#[repr(i16)]"], "i16", [V("A", d="-1"), V("B", "ref_t"), V("C")],
            gdecl="<'a, T: Copy + 'a, const N: usize>", guse="<'static, u8, 3>")
        add("e_deprecated_variant", "#[repr(u8)] enum {A, #[deprecated] B, C=9}", ["#[repr(u8)]"], "u8",
            [V("A"), V("B"), V("C", d="9")])
    return E


def variant_decl(v):
    name, kind, d = v
    body = {"unit": "", "tuple0": "()", "brace0": " {}", "tuple": "(u8)", "named": " { x: u16 }",
            "ref_arr": "(&'a [u8; N])", "generic": "(T)", "ref_t": "(&'a T, [u8; N])", "t_arr": "(T, [u8; N])"}[kind]
    return "    %s%s%s," % (name, body, (" = " + d) if d else "")


def variant_value(v):
    name, kind, d = v
    return {"unit": name, "tuple0": name + "()", "brace0": name + " {}"}.get(kind)


def program(e, with_contract, with_control):
    key, rty = e["key"], e["rty"]
    g, gu = e["gdecl"], e["guse"]
    fieldless = [v for v in e["variants"] if v[1] in ("unit", "tuple0", "brace0")]
    decl = "\n".join(variant_decl(v) for v in e["variants"])
    none_has = " && ".join("discr(&T::%s) != n" % variant_value(v) for v in fieldless) or "true"
    rt = "\n".join('        { let u = T::%s; let r = <T as TryFrom<R>>::try_from(discr(&u)); assert!(matches!(&r, Ok(v) if discr(v) == discr(&u) && matches!(v, T::%s)), "variant -> discriminant -> variant"); }' % (variant_value(v), variant_value(v)) for v in fieldless)
    is_fl = " | ".join("T::" + variant_value(v) for v in fieldless) or "_ if false"
    src = r'''
use crate::common::*;

#[derive(TryFrom)]
#[try_from(repr)]
%(attrs)s
pub enum En%(g)s %(where)s{
%(decl)s
}
pub type T = En%(gu)s;
pub type R = %(rty)s;

/// The language's own discriminant of a value (not the expander's arithmetic).
pub fn discr(v: &T) -> R { core::intrinsics::discriminant_value(v) as R }
pub fn fieldless(v: &T) -> bool { matches!(v, %(is_fl)s) }
/// no field-less variant has discriminant `n`
pub fn no_fieldless_has(n: R) -> bool { %(none_has)s }

/// Post-condition of `<T as TryFrom<R>>::try_from(n)`, taken from the property statement.
pub fn post_try_from(n: R, r: &Result<T, TryFromReprError<R>>) -> bool {
    match r {
        Ok(v) => fieldless(v) && discr(v) == n,
        Err(e) => e.input == n && no_fieldless_has(n),
    }
}

#[cfg_attr(kani, kani::ensures(|r| post_try_from(n, r)))]
pub fn try_from_contract(n: R) -> Result<T, TryFromReprError<R>> { <T as TryFrom<R>>::try_from(n) }

#[cfg(kani)]
mod proofs {
    use super::*;
    #[kani::proof]
    fn ob_try_from() {
        let n: R = kani::any();
        let r = <T as TryFrom<R>>::try_from(n);
        kani::cover!(r.is_ok(), "Ok reachable");
        kani::cover!(r.is_err(), "Err reachable");
        assert!(post_try_from(n, &r), "post_try_from");
    }
    /// every fieldless variant round-trips through its own discriminant
    #[kani::proof]
    fn ob_roundtrip() {
%(rt)s
    }
%(contract)s%(control)s
    // PLAYBACK-INSERTION-POINT
}
''' % dict(attrs="\n".join(e["attrs"]), g=g, gu=gu, where=(e.get("where") or ""), decl=decl, rty=rty, is_fl=is_fl, none_has=none_has, rt=rt,
           contract=('''    #[kani::proof_for_contract(try_from_contract)]
    fn ob_contract() { try_from_contract(kani::any()); }
''' if with_contract else ""),
           control=('''    #[kani::proof]
    fn control_false_post() { let n: R = kani::any(); assert!(<T as TryFrom<R>>::try_from(n).is_err()); }
''' if with_control and fieldless else ""))
    hs = [Harness("ob_try_from", "forall n: %s. post_try_from(n, En::try_from(n))" % rty, fn="<En as TryFrom<%s>>::try_from" % rty,
                  cover_min=2 if fieldless else 1),
          ]
    if fieldless:
        hs.append(Harness("ob_roundtrip", "forall fieldless variant u. try_from(discr(u)) == Ok(u)", fn="<En as TryFrom<%s>>::try_from" % rty))
    else:
        src = src.replace("    #[kani::proof]\n    fn ob_roundtrip() {", "    fn _no_roundtrip() {")
    if with_contract:
        hs.append(Harness("ob_contract", "#[kani::ensures(post_try_from)] on try_from_contract, proof_for_contract", kind="contract",
                          fn="try_from_contract (thin wrapper of the generated try_from)"))
    if with_control and fieldless:
        hs.append(Harness("control_false_post", "deliberately false post-condition must FAIL", kind="negative_control"))
    return Program(key, e["title"], src, hs)


def family(tier, seed):
    es = enums(tier)
    progs = [program(e, with_contract=(i == 0), with_control=(i == 0)) for i, e in enumerate(es)]
    return Family(
        "C12", progs, common_src=COMMON,
        crate_attrs="#![feature(core_intrinsics)]\n#![allow(internal_features)]",
        kani_flags=["-Z", "function-contracts"], unwind=12,
        level="proof",
        functions_under_contract=["generated <En as TryFrom<repr>>::try_from for each enum of the family (expanded by /repo/impl/src/try_from.rs)",
                                  "derive_more::TryFromReprError::new (src/convert.rs)"],
        trusted_base=["core::intrinsics::discriminant_value as the definition of an enum's discriminant"],
        assumptions=["ob_roundtrip loops over the (concrete, <=6) field-less variants with unwinding assertions on"],
        rule="one program per enum definition (discriminant layouts x repr types x generic parameters); per program the obligation "
             "quantifies over every value of the repr integer; distinct = harnesses discharged",
    )
