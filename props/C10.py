"""C10 -- derived operators act field-wise with operand order preserved.

Every type definition below is expanded by the REAL derive macros of /repo (add_like, add_assign_like,
mul_like, mul_assign_like, not_like, sum_like). Fields are probe newtypes `TagA/TagB/TagC(u32)` whose
operators are a non-commutative, operator-revealing function of (operator, lhs, rhs):

    l op r  :=  (rotl(l, 7) + r) ^ OPCODE(op) ^ SALT(type)            (wrapping u32 arithmetic)

For a fixed operand `(l, r) -> rotl(l,7) + r` is a bijection of u32 in the other one, so a wrong operator changes
the result for EVERY operand pair, swapped operands change it unless rotl(l,7) + r == rotl(r,7) + l, and a wrong
field index changes it unless the two fields happen to hold matching values. All operand values are symbolic,
hence Kani finds a distinguishing value whenever one exists. (A multiplicative mix was tried first: 20-30 s of
SAT time per harness for the multiplier equivalences; rotate+add: well under a second.)

Contracts (taken from the property statement; the oracle is always the field type's OWN operator):

    post_<op>(a, b, r)         :=  forall i.  r.f_i == a.f_i op b.f_i                     (binary, forward Mul-like)
    post_<op>(a, s, r)         :=  forall i.  r.f_i == a.f_i op s                         (scalar Mul-like)
    post_not / post_neg(a, r)  :=  forall i.  r.f_i == !a.f_i   /  -a.f_i
    post_<op>_assign(a, b, x)  :=  (forall i. x.f_i == {let mut t = a.f_i; t op= b.f_i; t})  &&  x == a op b
    enums                      :=  same variant -> Ok(field-wise), unit variant with itself -> Err(BinaryError::Unit) /
                                   Err(UnitError), different variants -> Err(BinaryError::Mismatch); variant choice symbolic
    post_sum(items, n, r)      :=  r == fold(items[..n], T{ f_i: <F_i as Sum>::sum(empty()) }, <T as Add>::add)   (n <= 3, BOUNDED)

Vacuity covers (Ok / unit error / mismatch error reachable, empty / full iterator) are placed AFTER the assertion of the
post-condition: they are then witnessed by inputs on which the post-condition HOLDS, and the counterexample of a failing
assertion can never coincide with the witness of a cover (Kani de-duplicates playback tests by their concrete values, and
the core drops playback tests labelled as cover witnesses).
"""
from vlib.core import Family, Program, Harness

# (Trait, method, operator symbol)
ADD_OPS = [("Add", "add", "+"), ("Sub", "sub", "-"), ("BitAnd", "bitand", "&"), ("BitOr", "bitor", "|"),
           ("BitXor", "bitxor", "^")]
MUL_OPS = [("Mul", "mul", "*"), ("Div", "div", "/"), ("Rem", "rem", "%"), ("Shr", "shr", ">>"), ("Shl", "shl", "<<")]
UN_OPS = [("Not", "not", "!"), ("Neg", "neg", "-")]

COMMON = r'''
// `with_trait` exports each derive together with the core trait of the same name: with every operator trait in scope a
// generated body that calls the method of a DIFFERENT operator still compiles and is refuted by value (op-code), not by rustc.
pub use derive_more::with_trait::{Add, Sub, BitAnd, BitOr, BitXor, Mul, Div, Rem, Shr, Shl, Not, Neg, Sum, Product};
pub use derive_more::with_trait::{AddAssign, SubAssign, BitAndAssign, BitOrAssign, BitXorAssign};
pub use derive_more::with_trait::{MulAssign, DivAssign, RemAssign, ShrAssign, ShlAssign};
pub use derive_more::{BinaryError, UnitError};

pub const OP_ADD: u32 = 0x0100_0000;
pub const OP_SUB: u32 = 0x0200_0000;
pub const OP_BITAND: u32 = 0x0300_0000;
pub const OP_BITOR: u32 = 0x0400_0000;
pub const OP_BITXOR: u32 = 0x0500_0000;
pub const OP_MUL: u32 = 0x0600_0000;
pub const OP_DIV: u32 = 0x0700_0000;
pub const OP_REM: u32 = 0x0800_0000;
pub const OP_SHR: u32 = 0x0900_0000;
pub const OP_SHL: u32 = 0x0a00_0000;
pub const OP_NOT: u32 = 0x0b00_0000;
pub const OP_NEG: u32 = 0x0c00_0000;
/// marks `Tag op Scalar` (so that it can never be confused with `Tag op Tag`)
pub const SCALAR: u32 = 0x8000_0000;
/// values of the empty sum / empty product of a probe (distinct from each other, from 0 and from 1)
pub const SUM_ID: u32 = 0x0000_5a5a;
pub const PROD_ID: u32 = 0x0000_a5a5;

/// Non-commutative, operator-revealing: bijective in `l` for fixed `r`, in `r` for fixed `l`; `op`/`salt` are xor-ed on.
/// (rotate + one adder: no multiplier, so that CBMC's SAT back end decides the equalities in milliseconds)
#[inline]
pub fn mix(op: u32, salt: u32, l: u32, r: u32) -> u32 {
    l.rotate_left(7).wrapping_add(r) ^ op ^ salt
}
#[inline]
pub fn un(op: u32, salt: u32, x: u32) -> u32 {
    x.rotate_left(11).wrapping_add(0x9e37_79b9) ^ op ^ salt
}

/// The right-hand side of scalar `Mul`-like derives.
#[derive(Clone, Copy, PartialEq, Eq, Debug)]
#[cfg_attr(kani, derive(kani::Arbitrary))]
pub struct Scalar(pub u32);

macro_rules! probe_bin {
    ($T:ident, $salt:expr, $Tr:ident, $m:ident, $TrA:ident, $ma:ident, $op:expr) => {
        impl core::ops::$Tr for $T {
            type Output = $T;
            #[inline]
            fn $m(self, r: $T) -> $T { $T(mix($op, $salt, self.0, r.0)) }
        }
        impl core::ops::$TrA for $T {
            #[inline]
            fn $ma(&mut self, r: $T) { self.0 = mix($op, $salt, self.0, r.0); }
        }
        impl core::ops::$Tr<Scalar> for $T {
            type Output = $T;
            #[inline]
            fn $m(self, r: Scalar) -> $T { $T(mix($op ^ SCALAR, $salt, self.0, r.0)) }
        }
        impl core::ops::$TrA<Scalar> for $T {
            #[inline]
            fn $ma(&mut self, r: Scalar) { self.0 = mix($op ^ SCALAR, $salt, self.0, r.0); }
        }
    };
}

macro_rules! probe {
    ($T:ident, $salt:expr) => {
        #[derive(Clone, Copy, PartialEq, Eq, Debug)]
        #[cfg_attr(kani, derive(kani::Arbitrary))]
        pub struct $T(pub u32);
        probe_bin!($T, $salt, Add, add, AddAssign, add_assign, OP_ADD);
        probe_bin!($T, $salt, Sub, sub, SubAssign, sub_assign, OP_SUB);
        probe_bin!($T, $salt, BitAnd, bitand, BitAndAssign, bitand_assign, OP_BITAND);
        probe_bin!($T, $salt, BitOr, bitor, BitOrAssign, bitor_assign, OP_BITOR);
        probe_bin!($T, $salt, BitXor, bitxor, BitXorAssign, bitxor_assign, OP_BITXOR);
        probe_bin!($T, $salt, Mul, mul, MulAssign, mul_assign, OP_MUL);
        probe_bin!($T, $salt, Div, div, DivAssign, div_assign, OP_DIV);
        probe_bin!($T, $salt, Rem, rem, RemAssign, rem_assign, OP_REM);
        probe_bin!($T, $salt, Shr, shr, ShrAssign, shr_assign, OP_SHR);
        probe_bin!($T, $salt, Shl, shl, ShlAssign, shl_assign, OP_SHL);
        impl core::ops::Not for $T {
            type Output = $T;
            #[inline]
            fn not(self) -> $T { $T(un(OP_NOT, $salt, self.0)) }
        }
        impl core::ops::Neg for $T {
            type Output = $T;
            #[inline]
            fn neg(self) -> $T { $T(un(OP_NEG, $salt, self.0)) }
        }
        impl core::iter::Sum for $T {
            fn sum<I: Iterator<Item = $T>>(it: I) -> $T { it.fold($T(SUM_ID ^ $salt), |a, b| a + b) }
        }
        impl core::iter::Product for $T {
            fn product<I: Iterator<Item = $T>>(it: I) -> $T { it.fold($T(PROD_ID ^ $salt), |a, b| a * b) }
        }
    };
}

/// Fixed-size sink used to observe the `Display` text of the error values (their operation name is a private field).
pub struct Sink { pub b: [u8; 48], pub n: usize }
impl core::fmt::Write for Sink {
    fn write_str(&mut self, s: &str) -> core::fmt::Result {
        for &c in s.as_bytes() {
            if self.n >= 48 { return Err(core::fmt::Error); }
            self.b[self.n] = c;
            self.n += 1;
        }
        Ok(())
    }
}
/// `e` displays exactly as `expect`
pub fn displays_as<D: core::fmt::Display>(e: &D, expect: &str) -> bool {
    use core::fmt::Write;
    let mut w = Sink { b: [0; 48], n: 0 };
    write!(w, "{}", e).is_ok() && w.n == expect.len() && w.b[..w.n] == *expect.as_bytes()
}

probe!(TagA, 0x0000_000a);
probe!(TagB, 0x0000_0b00);
probe!(TagC, 0x000c_0000);
/// A user DATA type that merely shares its name with the std marker (field letter `P` of the generator): it implements every
/// operator, so scalar Mul-like derives must apply the operator to it like to any other field.
pub mod sim {
    use super::*;
    probe!(PhantomData, 0x00d0_0000);
}
'''

NAMES = ["x", "y", "z"] + ["f%d" % i for i in range(3, 16)]


def acc(kind, i):
    return str(i) if kind == "tuple" else NAMES[i]


def body_decl(kind, fields, pub="pub ", ty="Tag%s"):
    if kind == "tuple":
        r = "(" + ", ".join(pub + ty % f for f in fields) + ")"
    else:
        r = " { " + ", ".join("%s%s: %s" % (pub, NAMES[i], ty % f) for i, f in enumerate(fields)) + " }"
    return r.replace("TagP", "sim::PhantomData")


def forall_fields(kind, fields, fmt):
    """conjunction over the fields; fmt gets f=accessor"""
    return " && ".join(fmt % dict(f=acc(kind, i)) for i in range(len(fields)))


# ----------------------------------------------------------------------------------------------- structs

def struct_program(kind, fields, group, with_contract=False, with_control=False, generic=False, only=None, sumprod=True):
    """group in add | mulfwd | mulscalar | unary.  generic: `struct G<PA, PB>(PA, PB, PA)` used at `T = G<TagA, TagB>`"""
    key = "s%s%s_%s_%s" % ("t" if kind == "tuple" else "n", "g" if generic else "", "".join(fields).lower(), group)
    derives, attrs, posts, proofs, hs = [], [], [], [], []
    params = sorted(set(fields))
    ctor = "G" if generic else "T"
    decl_fields = body_decl(kind, fields, ty="P%s" if generic else "Tag%s")
    ops = ADD_OPS if group == "add" else MUL_OPS
    if only:
        # reduced programs (only some traits of the group, no Sum/Product); the key names the subset
        ops = [o for o in ops if o[0] in only]
        key += "_" + "".join(o[1] for o in ops)
    fnbase = "derive_more-generated <T as %s>::%s"

    if group in ("add", "mulfwd"):
        for tr, m, sym in ops:
            derives += [tr, tr + "Assign"]
            if group == "mulfwd":
                attrs += ["#[%s(forward)]" % m, "#[%s_assign(forward)]" % m]
            posts.append("/// `%s`: the i-th field of the result is `lhs.i %s rhs.i`\npub fn post_%s(a: T, b: T, r: &T) -> bool { %s }" % (
                tr, sym, m, forall_fields(kind, fields, "r.%%(f)s == a.%%(f)s %s b.%%(f)s" % sym.replace("%", "%%"))))
            posts.append("/// `%sAssign`: `a` is left equal to what `a %s b` returns (field-wise: the field's own `%s=`)\n"
                         "pub fn post_%s_assign(a: T, b: T, x: &T) -> bool { %s && *x == a %s b }" % (
                             tr, sym, sym, m,
                             forall_fields(kind, fields, "({ let mut t = a.%%(f)s; t %s= b.%%(f)s; x.%%(f)s == t })" % sym.replace("%", "%%")),
                             sym))
            proofs.append('''    #[kani::proof]
    fn ob_%(m)s() {
        let a: T = kani::any();
        let b: T = kani::any();
        let r = <T as core::ops::%(tr)s>::%(m)s(a, b);
        assert!(post_%(m)s(a, b, &r), "post_%(m)s");
    }
    #[kani::proof]
    fn ob_%(m)s_assign() {
        let a: T = kani::any();
        let b: T = kani::any();
        let mut x = a;
        <T as core::ops::%(tr)sAssign>::%(m)s_assign(&mut x, b);
        assert!(post_%(m)s_assign(a, b, &x), "post_%(m)s_assign");
    }''' % dict(m=m, tr=tr))
            hs.append(Harness("ob_" + m, "forall a b: T. forall i. (a %s b).f_i == a.f_i %s b.f_i" % (sym, sym), fn=fnbase % (tr, m)))
            hs.append(Harness("ob_%s_assign" % m, "forall a b: T. {x = a; x %s= b; x}.f_i == {t = a.f_i; t %s= b.f_i; t} and x == a %s b" % (sym, sym, sym),
                              fn=fnbase % (tr + "Assign", m + "_assign")))
        if sumprod:
            # Sum (needs Add) / Product (needs Mul<Self>)
            tr, m, optr, opm = ("Sum", "sum", "Add", "add") if group == "add" else ("Product", "product", "Mul", "mul")
            derives.append(tr)
            ident = (ctor + "(" + ", ".join("<Tag%s as core::iter::%s>::%s(core::iter::empty::<Tag%s>())" % (f, tr, m, f) for f in fields) + ")") \
                if kind == "tuple" else \
                (ctor + " { " + ", ".join("%s: <Tag%s as core::iter::%s>::%s(core::iter::empty::<Tag%s>())" % (NAMES[i], f, tr, m, f)
                                    for i, f in enumerate(fields)) + " }")
            posts.append('''/// the field-wise empty %(m)s
    pub fn identity_%(m)s() -> T { %(ident)s }
    /// `%(tr)s`: equals folding the first `n` items with `%(optr)s` starting from the field-wise empty %(m)s
    pub fn post_%(m)s(items: &[T; 3], n: usize, r: &T) -> bool {
        let mut acc = identity_%(m)s();
        if n > 0 { acc = <T as core::ops::%(optr)s>::%(opm)s(acc, items[0]); }
        if n > 1 { acc = <T as core::ops::%(optr)s>::%(opm)s(acc, items[1]); }
        if n > 2 { acc = <T as core::ops::%(optr)s>::%(opm)s(acc, items[2]); }
        *r == acc
    }''' % dict(m=m, tr=tr, optr=optr, opm=opm, ident=ident))
            proofs.append('''    #[kani::proof]
        fn ob_%(m)s() {
            let items: [T; 3] = kani::any();
            let n: usize = kani::any();
            kani::assume(n <= 3);
            let r = <T as core::iter::%(tr)s>::%(m)s(items.into_iter().take(n));
            assert!(post_%(m)s(&items, n, &r), "post_%(m)s");
            kani::cover!(n == 0, "empty iterator");
            kani::cover!(n == 3, "three items");
        }''' % dict(m=m, tr=tr))
            hs.append(Harness("ob_" + m, "forall items: [T;3], n <= 3. %s(items[..n]) == fold(items[..n], field-wise empty %s, %s::%s)" % (m, m, optr, opm),
                              bounded="iterator length <= 3", fn=fnbase % (tr, m), cover_min=2))
    elif group == "mulscalar":
        for tr, m, sym in ops:
            derives += [tr, tr + "Assign"]
            posts.append("/// scalar `%s`: every field of the result is `field_i %s rhs`\npub fn post_%s(a: T, s: Scalar, r: &T) -> bool { %s }" % (
                tr, sym, m, forall_fields(kind, fields, "r.%%(f)s == a.%%(f)s %s s" % sym.replace("%", "%%"))))
            posts.append("/// scalar `%sAssign`: `a` is left equal to what `a %s rhs` returns\n"
                         "pub fn post_%s_assign(a: T, s: Scalar, x: &T) -> bool { %s && *x == a %s s }" % (
                             tr, sym, m,
                             forall_fields(kind, fields, "({ let mut t = a.%%(f)s; t %s= s; x.%%(f)s == t })" % sym.replace("%", "%%")), sym))
            proofs.append('''    #[kani::proof]
    fn ob_%(m)s() {
        let a: T = kani::any();
        let s: Scalar = kani::any();
        let r = <T as core::ops::%(tr)s<Scalar>>::%(m)s(a, s);
        assert!(post_%(m)s(a, s, &r), "post_%(m)s");
    }
    #[kani::proof]
    fn ob_%(m)s_assign() {
        let a: T = kani::any();
        let s: Scalar = kani::any();
        let mut x = a;
        <T as core::ops::%(tr)sAssign<Scalar>>::%(m)s_assign(&mut x, s);
        assert!(post_%(m)s_assign(a, s, &x), "post_%(m)s_assign");
    }''' % dict(m=m, tr=tr))
            hs.append(Harness("ob_" + m, "forall a: T, s: Scalar. forall i. (a %s s).f_i == a.f_i %s s" % (sym, sym), fn=fnbase % (tr + "<Scalar>", m)))
            hs.append(Harness("ob_%s_assign" % m, "forall a: T, s: Scalar. {x = a; x %s= s; x}.f_i == {t = a.f_i; t %s= s; t} and x == a %s s" % (sym, sym, sym),
                              fn=fnbase % (tr + "Assign<Scalar>", m + "_assign")))
    else:  # unary
        for tr, m, sym in UN_OPS:
            derives.append(tr)
            posts.append("/// `%s` maps every field\npub fn post_%s(a: T, r: &T) -> bool { %s }" % (
                tr, m, forall_fields(kind, fields, "r.%%(f)s == %sa.%%(f)s" % sym)))
            proofs.append('''    #[kani::proof]
    fn ob_%(m)s() {
        let a: T = kani::any();
        let r = <T as core::ops::%(tr)s>::%(m)s(a);
        assert!(post_%(m)s(a, &r), "post_%(m)s");
    }''' % dict(m=m, tr=tr))
            hs.append(Harness("ob_" + m, "forall a: T. forall i. (%sa).f_i == %sa.f_i" % (sym, sym), fn=fnbase % (tr, m)))

    contract = ""
    if with_contract:
        assert group == "add"
        contract = '''
/// Representative carrying a real Kani contract: thin wrapper of the generated `sub`.
#[cfg_attr(kani, kani::ensures(|r| post_sub(a, b, r)))]
pub fn sub_contract(a: T, b: T) -> T { <T as core::ops::Sub>::sub(a, b) }
'''
        proofs.append('''    #[kani::proof_for_contract(sub_contract)]
    fn ob_contract() { sub_contract(kani::any(), kani::any()); }''')
        hs.append(Harness("ob_contract", "#[kani::ensures(post_sub)] on sub_contract, proof_for_contract", kind="contract",
                          fn="sub_contract (thin wrapper of the generated <T as Sub>::sub)"))
    if with_control:
        assert group == "add"
        f0 = acc(kind, 0)
        proofs.append('''    /// negative control: the operand-swapped post-condition must be refuted (the probe reveals operand order)
    #[kani::proof]
    fn control_swapped_operands() {
        let a: T = kani::any();
        let b: T = kani::any();
        let r = <T as core::ops::Sub>::sub(a, b);
        assert!(r.%(f)s == b.%(f)s - a.%(f)s, "deliberately false: swapped operands");
    }''' % dict(f=f0))
        hs.append(Harness("control_swapped_operands", "deliberately false post-condition (operands swapped) must FAIL", kind="negative_control"))

    gparams = "<%s>" % ", ".join("P" + f for f in params) if generic else ""
    galias = "pub type T = G<%s>;" % ", ".join("Tag" + f for f in params) if generic else ""
    title = "#[derive(%s)] %sstruct %s%s%s%s" % (", ".join(derives), " ".join(attrs) + (" " if attrs else ""), ctor, gparams,
                                               body_decl(kind, fields, pub="", ty="P%s" if generic else "Tag%s") + (";" if kind == "tuple" else ""),
                                               (" used at " + galias[9:-1]) if generic else "")
    src = '''
use crate::common::*;

#[derive(Clone, Copy, PartialEq, Debug)]
#[cfg_attr(kani, derive(kani::Arbitrary))]
#[derive(%(derives)s)]
%(attrs)s
pub struct %(ctor)s%(gparams)s%(decl)s%(semi)s
%(galias)s

%(posts)s
%(contract)s
#[cfg(kani)]
mod proofs {
    use super::*;
%(proofs)s
    // PLAYBACK-INSERTION-POINT
}
''' % dict(derives=", ".join(derives), attrs="\n".join(attrs), decl=decl_fields, semi=";" if kind == "tuple" else "",
           posts="\n".join(posts), contract=contract, proofs="\n".join(proofs), ctor=ctor, gparams=gparams, galias=galias)
    return Program(key, title, src, hs)


def sum_custom_program(kind, nfields=2, generic=False):
    """Sum/Product over a type whose own Add/Mul is hand-written and deliberately NOT the field-wise operator: the derive must
    fold with the TYPE's operator starting from the field-wise empty sum/product (property statement); it must neither sum the
    fields separately nor -- for a single-field struct -- unwrap the items and use the field type's Sum/Product.
    nfields=2: the two fields cross; nfields=1: a different field operator with the operands swapped.
    generic: `struct G<P>(P ..)` used at `T = G<TagA>`, the hand-written impls are generic too."""
    fields = "A" * nfields
    key = "s%s%s_%s_sumprod_customop" % ("t" if kind == "tuple" else "n", "g" if generic else "", fields.lower())
    ctor = "G" if generic else "T"
    f0, f1 = acc(kind, 0), acc(kind, nfields - 1)

    def mk(*vals):
        if kind == "tuple":
            return "%s(%s)" % (ctor, ", ".join(vals))
        return "%s { %s }" % (ctor, ", ".join("%s: %s" % (NAMES[i], v) for i, v in enumerate(vals)))
    posts, proofs, hs = [], [], []
    for tr, m, optr, opm in (("Sum", "sum", "Add", "add"), ("Product", "product", "Mul", "mul")):
        e = "<TagA as core::iter::%s>::%s(core::iter::empty::<TagA>())" % (tr, m)
        posts.append('''pub fn identity_%(m)s() -> T { %(ident)s }
/// `%(tr)s`: equals folding the first `n` items with the type's own `%(optr)s` starting from the field-wise empty %(m)s
pub fn post_%(m)s(items: &[T; 3], n: usize, r: &T) -> bool {
    let mut acc = identity_%(m)s();
    if n > 0 { acc = <T as core::ops::%(optr)s>::%(opm)s(acc, items[0]); }
    if n > 1 { acc = <T as core::ops::%(optr)s>::%(opm)s(acc, items[1]); }
    if n > 2 { acc = <T as core::ops::%(optr)s>::%(opm)s(acc, items[2]); }
    *r == acc
}''' % dict(m=m, tr=tr, optr=optr, opm=opm, ident=mk(*([e] * nfields))))
        proofs.append('''    #[kani::proof]
    fn ob_%(m)s() {
        let items: [T; 3] = kani::any();
        let n: usize = kani::any();
        kani::assume(n <= 3);
        let r = <T as core::iter::%(tr)s>::%(m)s(items.into_iter().take(n));
        assert!(post_%(m)s(&items, n, &r), "post_%(m)s");
        kani::cover!(n == 0, "empty iterator");
        kani::cover!(n == 3, "three items");
    }''' % dict(m=m, tr=tr))
        hs.append(Harness("ob_" + m, "forall items: [T;3], n <= 3. %s(items[..n]) == fold(items[..n], field-wise empty %s, T's hand-written %s::%s)" % (m, m, optr, opm),
                          bounded="iterator length <= 3", fn="derive_more-generated <T as %s>::%s" % (tr, m), cover_min=2))
    fty = "P%s" if generic else "Tag%s"
    gparams = "<PA>" if generic else ""
    galias = "pub type T = G<TagA>;" if generic else ""
    title = "#[derive(Sum, Product)] struct %s%s%s%s with hand-written Add and Mul that are not the field-wise operators" % (
        ctor, gparams, body_decl(kind, fields, pub="", ty=fty) + (";" if kind == "tuple" else ""), " used at T = G<TagA>" if generic else "")
    if nfields == 2:
        addv = mk("self.%s + r.%s" % (f0, f1), "r.%s - self.%s" % (f0, f1))
        mulv = mk("self.%s * r.%s" % (f1, f0), "self.%s / r.%s" % (f0, f1))
        add_b = "core::ops::Add<Output = PA> + core::ops::Sub<Output = PA>"
        mul_b = "core::ops::Mul<Output = PA> + core::ops::Div<Output = PA>"
        how = "the two fields cross"
    else:
        addv = mk("r.%s - self.%s" % (f0, f0))
        mulv = mk("r.%s / self.%s" % (f0, f0))
        add_b = "core::ops::Sub<Output = PA>"
        mul_b = "core::ops::Div<Output = PA>"
        how = "another operator of the field, operands swapped"
    src = '''
use crate::common::*;

#[derive(Clone, Copy, PartialEq, Debug)]
#[cfg_attr(kani, derive(kani::Arbitrary))]
#[derive(Sum, Product)]
pub struct %(ctor)s%(gparams)s%(decl)s%(semi)s
%(galias)s

/// hand-written and deliberately not the field-wise operator (%(how)s) and not commutative
impl%(add_g)s core::ops::Add for %(ctor)s%(gparams)s {
    type Output = Self;
    fn add(self, r: Self) -> Self { %(addv)s }
}
impl%(mul_g)s core::ops::Mul for %(ctor)s%(gparams)s {
    type Output = Self;
    fn mul(self, r: Self) -> Self { %(mulv)s }
}

%(posts)s

#[cfg(kani)]
mod proofs {
    use super::*;
%(proofs)s
    // PLAYBACK-INSERTION-POINT
}
''' % dict(ctor=ctor, gparams=gparams, galias=galias, decl=body_decl(kind, fields, ty=fty), semi=";" if kind == "tuple" else "",
           how=how, addv=addv, mulv=mulv, add_g="<PA: %s>" % add_b if generic else "", mul_g="<PA: %s>" % mul_b if generic else "",
           posts="\n".join(posts), proofs="\n".join(proofs))
    return Program(key, title, src, hs)


# ------------------------------------------------------------------------------------------------- enums
# variant = (Name, kind, fields)   kind in tuple | named | unit

def V(name, kind="unit", fields=""):
    return (name, kind, list(fields))


ENUMS = {
    # tuple, named and unit variants; A and D have the same field types (a confusion of variants would type-check)
    "mixed": [V("A", "tuple", "A"), V("B", "tuple", "ABA"), V("C", "named", "AA"), V("D", "tuple", "A"), V("U"), V("W")],
    "nounit": [V("A", "tuple", "A"), V("B", "named", "AB"), V("C", "tuple", "A")],
    "single": [V("Only", "tuple", "AB")],
    "tuples": [V("A", "tuple", "AA"), V("B", "tuple", "AA"), V("C", "tuple", "ABC")],
    "nameds": [V("A", "named", "AA"), V("B", "named", "AA"), V("C", "named", "ABA")],
    "units": [V("U"), V("W")],
    # `P()` and `Q {}` have no fields but are NOT unit variants: Not/Neg must keep `Output = E` (no Result wrapping)
    "empties": [V("A", "tuple", "AB"), V("P", "tuple", ""), V("Q", "named", "")],
    "unit_first": [V("U"), V("A", "named", "BA"), V("B", "tuple", "BAB")],
}


def variant_decl(v):
    name, kind, fields = v
    if kind == "unit":
        return name
    return name + body_decl(kind, fields, pub="")


def variant_pat(v, prefix, deref=False):
    """pattern binding the fields of variant v to <prefix>0, <prefix>1 .."""
    name, kind, fields = v
    if kind == "unit":
        return "E::" + name
    if kind == "tuple":
        return "E::%s(%s)" % (name, ", ".join("%s%d" % (prefix, i) for i in range(len(fields))))
    return "E::%s { %s }" % (name, ", ".join("%s: %s%d" % (NAMES[i], prefix, i) for i in range(len(fields))))


def variant_any(v):
    name, kind, fields = v
    if kind == "unit":
        return "E::" + name
    if kind == "tuple":
        return "E::%s(%s)" % (name, ", ".join("kani::any()" for _ in fields))
    return "E::%s { %s }" % (name, ", ".join("%s: kani::any()" % NAMES[i] for i in range(len(fields))))


def variant_concrete(v, base):
    name, kind, fields = v
    vals = ["Tag%s(%d)" % (f, base + i) for i, f in enumerate(fields)]
    if kind == "unit":
        return "E::" + name
    if kind == "tuple":
        return "E::%s(%s)" % (name, ", ".join(vals))
    return "E::%s { %s }" % (name, ", ".join("%s: %s" % (NAMES[i], x) for i, x in enumerate(vals)))


def enum_program(ename, group, error_text=False):
    """group in add | mulfwd | unary"""
    variants = ENUMS[ename]
    key = "e_%s_%s" % (ename, group)
    has_unit = any(v[1] == "unit" for v in variants)
    has_data = any(v[1] != "unit" for v in variants)
    multi = len(variants) > 1
    derives, attrs, posts, proofs, hs = [], [], [], [], []
    fnbase = "derive_more-generated <E as %s>::%s"
    arb = "\n".join("            %s => %s," % (i if i + 1 < len(variants) else "_", variant_any(v)) for i, v in enumerate(variants))
    if group in ("add", "mulfwd"):
        ops = ADD_OPS if group == "add" else MUL_OPS
        for tr, m, sym in ops:
            derives.append(tr)
            if group == "mulfwd":
                attrs.append("#[%s(forward)]" % m)
            arms = []
            for v in variants:
                if v[1] == "unit":
                    arms.append("        (E::%s, E::%s, Err(BinaryError::Unit(_))) => true," % (v[0], v[0]))
                else:
                    cond = " && ".join("*o%d == l%d %s r%d" % (i, i, sym, i) for i in range(len(v[2]))) or "true"
                    arms.append("        (%s, %s, Ok(%s)) => %s," % (variant_pat(v, "l"), variant_pat(v, "r"), variant_pat(v, "o"), cond))
            arms.append("        (a, b, Err(BinaryError::Mismatch(_))) => !same_variant(&a, &b),")
            arms.append("        _ => false,")
            posts.append('''/// `%(tr)s` on the enum: same variant => Ok(field-wise `l.i %(sym)s r.i`), a unit variant with itself => the unit error,
/// different variants => the mismatch error.
pub fn post_%(m)s(a: E, b: E, r: &Result<E, BinaryError>) -> bool {
    match (a, b, r) {
%(arms)s
    }
}''' % dict(tr=tr, m=m, sym=sym, arms="\n".join(arms)))
            covers = []
            if has_data:
                covers.append('        kani::cover!(r.is_ok(), "Ok reachable");')
            if has_unit:
                covers.append('        kani::cover!(matches!(r, Err(BinaryError::Unit(_))), "unit error reachable");')
            if multi:
                covers.append('        kani::cover!(matches!(r, Err(BinaryError::Mismatch(_))), "mismatch error reachable");')
            proofs.append('''    #[kani::proof]
    fn ob_%(m)s() {
        let a: E = kani::any();
        let b: E = kani::any();
        let r = <E as core::ops::%(tr)s>::%(m)s(a, b);
        assert!(post_%(m)s(a, b, &r), "post_%(m)s");
%(covers)s
    }''' % dict(m=m, tr=tr, covers="\n".join(covers)))
            hs.append(Harness("ob_" + m, "forall a b: E (variants symbolic). a %s b == Ok(field-wise) | Err(Unit) | Err(Mismatch) as the variants dictate" % sym,
                              fn=fnbase % (tr, m), cover_min=len(covers)))
            # the errors name the operation (operation_name is private: observed through Display, concrete operands)
            checks = []
            units = [v for v in variants if v[1] == "unit"]
            if multi:
                checks.append('        match <E as core::ops::%s>::%s(%s, %s) { Err(e) => assert!(displays_as(&e, "Trying to %s() mismatched enum variants"), "mismatch error names %s"), Ok(_) => assert!(false, "mismatch expected") }' % (
                    tr, m, variant_concrete(variants[0], 1), variant_concrete(variants[-1], 5), m, m))
            if units:
                checks.append('        match <E as core::ops::%s>::%s(E::%s, E::%s) { Err(e) => assert!(displays_as(&e, "Cannot %s() unit variants"), "unit error names %s"), Ok(_) => assert!(false, "unit error expected") }' % (
                    tr, m, units[0][0], units[0][0], m, m))
            if checks and error_text:
                proofs.append("""    #[kani::proof]
    #[kani::unwind(50)]
    fn ob_%s_error_text() {
%s
    }""" % (m, "\n".join(checks)))
                hs.append(Harness("ob_%s_error_text" % m, "the mismatch / unit error returned by `%s` displays the operation name `%s()`" % (sym, m),
                                  bounded="concrete operands; Display into a 48-byte sink, loops unwound 50", fn=fnbase % (tr, m)))
    else:
        for tr, m, sym in UN_OPS:
            derives.append(tr)
            arms = []
            for v in variants:
                if v[1] == "unit":
                    arms.append("        (E::%s, Err(_)) => true," % v[0])
                else:
                    cond = " && ".join("*o%d == %sl%d" % (i, sym, i) for i in range(len(v[2]))) or "true"
                    opat = variant_pat(v, "o")
                    arms.append("        (%s, %s) => %s," % (variant_pat(v, "l"), ("Ok(%s)" % opat) if has_unit else opat, cond))
            if multi or has_unit:
                arms.append("        _ => false,")
            rty = "Result<E, UnitError>" if has_unit else "E"
            posts.append('''/// `%(tr)s` on the enum: every field of the active variant is mapped%(doc)s
pub fn post_%(m)s(a: E, r: &%(rty)s) -> bool {
    match (a, r) {
%(arms)s
    }
}''' % dict(tr=tr, m=m, rty=rty, arms="\n".join(arms),
            doc="; the enum has unit variants, so the result is wrapped: Ok(mapped) / Err(UnitError) for a unit variant" if has_unit else ""))
            covers = []
            if has_unit:
                if has_data:
                    covers.append('        kani::cover!(r.is_ok(), "Ok reachable");')
                covers.append('        kani::cover!(r.is_err(), "unit error reachable");')
            proofs.append('''    #[kani::proof]
    fn ob_%(m)s() {
        let a: E = kani::any();
        let r: %(rty)s = <E as core::ops::%(tr)s>::%(m)s(a);
        assert!(post_%(m)s(a, &r), "post_%(m)s");
%(covers)s
    }''' % dict(m=m, tr=tr, rty=rty, covers="\n".join(covers)))
            hs.append(Harness("ob_" + m, "forall a: E (variant symbolic). %sa maps every field of the active variant%s" % (
                sym, " (Ok), unit variant => Err(UnitError)" if has_unit else ""), fn=fnbase % (tr, m), cover_min=len(covers)))
            units = [v for v in variants if v[1] == "unit"]
            if units and error_text:
                proofs.append("""    #[kani::proof]
    #[kani::unwind(50)]
    fn ob_%s_error_text() {
        match <E as core::ops::%s>::%s(E::%s) { Err(e) => assert!(displays_as(&e, "Cannot %s() unit variants"), "unit error names %s"), Ok(_) => assert!(false, "unit error expected") }
    }""" % (m, tr, m, units[-1][0], m, m))
                hs.append(Harness("ob_%s_error_text" % m, "the unit error returned by `%s` displays the operation name `%s()`" % (sym, m),
                                  bounded="concrete operand; Display into a 48-byte sink, loops unwound 50", fn=fnbase % (tr, m)))

    title = "#[derive(%s)] %senum E { %s }" % (", ".join(derives), " ".join(attrs) + (" " if attrs else ""),
                                              ", ".join(variant_decl(v) for v in variants))
    src = '''
use crate::common::*;

#[derive(Clone, Copy, PartialEq, Debug)]
#[derive(%(derives)s)]
%(attrs)s
pub enum E {
%(decl)s
}

/// every pair of values is reachable: the variant is chosen by a symbolic byte, the fields are symbolic
#[cfg(kani)]
impl kani::Arbitrary for E {
    fn any() -> Self {
        let k: u8 = kani::any();
        match k {
%(arb)s
        }
    }
}

pub fn same_variant(a: &E, b: &E) -> bool { core::mem::discriminant(a) == core::mem::discriminant(b) }

%(posts)s

#[cfg(kani)]
mod proofs {
    use super::*;
%(proofs)s
    // PLAYBACK-INSERTION-POINT
}
''' % dict(derives=", ".join(derives), attrs="\n".join(attrs), decl="\n".join("    %s," % variant_decl(v) for v in variants),
           arb=arb, posts="\n".join(posts), proofs="\n".join(proofs))
    return Program(key, title, src, hs)


# ------------------------------------------------------------------------------------------------ family

STRUCT_GROUPS = ["add", "mulfwd", "mulscalar", "unary"]
ENUM_GROUPS = ["add", "mulfwd", "unary"]
ENUM_MULFWD_ALL = True


def family(tier, seed):
    if tier == "quick":
        shapes = [("tuple", "A"), ("tuple", "AB"), ("tuple", "ABA"),
                  ("named", "A"), ("named", "AA"), ("named", "ABC")]
        generic_shapes = [("tuple", "ABA"), ("named", "AB")]
        enums = ["mixed", "nounit", "single", "unit_first", "empties"]
    else:
        fs = ["A", "AA", "AB", "AAA", "AAB", "ABA", "ABB", "ABC", "CBA"]
        shapes = [(k, f) for k in ("tuple", "named") for f in fs]
        generic_shapes = [("tuple", "A"), ("tuple", "AA"), ("tuple", "ABA"), ("named", "A"), ("named", "AB"), ("named", "BAB")]
        enums = list(ENUMS)
    progs = []
    first = True
    for kind, f in shapes:
        for g in STRUCT_GROUPS:
            rep = first and g == "add" and len(f) >= 2
            progs.append(struct_program(kind, list(f), g, with_contract=rep, with_control=rep))
            if rep:
                first = False
    for kind, f in generic_shapes:
        for g in STRUCT_GROUPS:
            progs.append(struct_program(kind, list(f), g, generic=True))
    # >= 11 fields of one type: positions "10", "11" sort before "2" as strings -- a by-name ordering of the per-field
    # expressions permutes the fields of the by-value operators (and makes `a += b` disagree with `a + b`)
    wide = list("A" * 12)
    progs.append(struct_program("tuple", wide, "add", only=("Add", "Sub", "BitXor"), sumprod=False))
    progs.append(struct_program("tuple", wide, "mulfwd", only=("Mul",), sumprod=False))
    # a data field whose type is merely NAMED `PhantomData` (common::sim::PhantomData implements every operator)
    for kind, f in (("tuple", "AP"), ("named", "PA")):
        progs.append(struct_program(kind, list(f), "mulscalar", only=("Mul", "Shl")))
    # Sum/Product must fold with the struct's OWN Add/Mul -- also for a single-field struct (a "newtype shortcut" that unwraps the
    # items and uses the field's Sum/Product is only visible when the struct's operator is not the field's)
    if tier == "quick":
        custom = [("tuple", 1, False), ("named", 1, False), ("tuple", 1, True), ("tuple", 2, False)]
    else:
        custom = [(k, n, g) for k in ("tuple", "named") for n in (1, 2) for g in (False, True)]
    for k, n, g in custom:
        progs.append(sum_custom_program(k, n, g))
    for e in enums:
        for g in ENUM_GROUPS:
            # impl/doc/mul.md: "Deriving `Mul` for enums is not (yet) supported, except when you use `#[mul(forward)]`", but
            # mul_like::expand rejects the attribute on every enum ("Attribute is not allowed here", AttrParams::struct_).
            # All enum x forward programs fail identically, so ONE representative (e_mixed_mulfwd) stays in the family; its
            # `/expansion` obligation is the finding. The generator for the others is kept (ENUM_MULFWD_ALL) for when it is fixed.
            if g == "mulfwd" and e != "mixed" and not ENUM_MULFWD_ALL:
                continue
            # thorough only: the errors name the operation (fmt machinery: ~30-150 s of symbolic execution per harness)
            progs.append(enum_program(e, g, error_text=(tier != "quick" and e == "mixed")))
    return Family(
        "C10", progs, common_src=COMMON,
        kani_flags=["-Z", "function-contracts"], unwind=5,
        level="proof",
        functions_under_contract=[
            "generated add/sub/bitand/bitor/bitxor of #[derive(Add, Sub, BitAnd, BitOr, BitXor)] (impl/src/add_like.rs, add_helpers.rs) on structs and enums",
            "generated mul/div/rem/shr/shl of #[derive(Mul, Div, Rem, Shr, Shl)], scalar form (impl/src/mul_like.rs, mul_helpers.rs) and #[<op>(forward)] form (add_like.rs)",
            "generated *_assign of the 10 *Assign derives (impl/src/add_assign_like.rs, mul_assign_like.rs)",
            "generated not/neg of #[derive(Not, Neg)] (impl/src/not_like.rs) on structs and enums (Result wrapping with unit variants)",
            "generated sum/product of #[derive(Sum, Product)] (impl/src/sum_like.rs) -- bounded",
            "derive_more::UnitError::new, WrongVariantError::new, BinaryError (src/ops.rs, src/add.rs)",
        ],
        trusted_base=["the probe operand types TagA/TagB/TagC/Scalar of common.rs: `mix`/`un` are the field type's own operators and the oracle of every post-condition",
                      "core::mem::discriminant as the definition of 'same variant'", "std's #[derive(PartialEq, Clone, Copy)] on the generated types"],
        assumptions=["Sum/Product: the iterator is `[T; 3]::into_iter().take(n)`, n <= 3 symbolic, unwind 5 with unwinding assertions on (bounded obligations, not counted as proved)",
                     "kani::assume(n <= 3) in ob_sum / ob_product only",
                     "ob_*_error_text (thorough, enum `mixed` only): concrete operands, expected text = the Display impls documented in src/add.rs / src/ops.rs (bounded, not counted as proved)",
                     "the probes' `op=` is defined as `*self = *self op rhs`, i.e. the field type is one for which `a op= b` and `a = a op b` agree (the property's `*Assign` clause presupposes this)"],
        rule="one program per (type definition, derive group); per program one obligation per derived trait, quantifying over every operand value "
             "(and, for enums, every pair of variants); distinct = harnesses discharged",
        bounded_note="ob_sum / ob_product: iterator length <= 3; ob_*_error_text: concrete operands, loops unwound 50",
    )
