"""C09 -- Error::source returns exactly the field the documented rules select.

Contract on the generated `source()` (the real macro of /repo expands every type below):

    post_source(v, r) := match EXPECT(variant of v) {
        Some(i) => r.is_some() && thin_addr(r.unwrap()) == addr_of(v.f_i)     [Box<dyn Error>: == addr_of(&**v.f_i)]
        None    => r.is_none() }

EXPECT is computed HERE, from the rule order of the property statement / impl/doc/error.md, never from
impl/src/error.rs:
    1. the field marked `#[error(source)]`;
    2. else (named fields) the field called `source`;
    3. else (tuple) the only field that is not used as the backtrace -- of a one-field tuple, or of a
       two-field tuple whose other field is the backtrace;
    4. a candidate of rule 2/3 marked `#[error(not(source))]` or `#[error(ignore)]` => None;
    5. no candidate => None; `#[error(ignore)]` on the variant => None.
"Fields marked ignore never change which of the remaining fields is returned" settles how an ignored field
takes part in rule 3: EXPECT of a layout is what the same type WITHOUT the ignore attribute selects, and
`None` if that selected field is the ignored one.  An ignored field therefore keeps its position:
`St(#[error(ignore)] i32, Src)` is a two-field tuple without backtrace => None (as `St(i32, Src)`), it is NOT
turned into a one-field tuple.  The one place where this sentence and doc/error.md ("ignore ... will ignore it
both for detecting backtrace and source") point in different directions stays excluded (Unsettled): a tuple whose
ignored field is the only backtrace candidate, `St(Src, #[error(ignore)] Backtrace)` (un-ignored: Some(0); an
ignored field is no backtrace, hence two non-backtrace fields: None).
"... and ambiguous selections are compile errors rather than arbitrary choices": layouts the rules call ambiguous
are not part of the value-level family; those the macro documents as rejected (several explicit `source` /
`backtrace` marks in one struct / variant, several inferred backtrace candidates) are must-reject
programs (`rej_*`, discharged by rustc, see MUST_REJECT).

The oracle inside post_source is the language's own field access / address-of; probes are non-zero-sized.
`std::backtrace::Backtrace` fields are included: Kani's toolchain is a nightly, the harness crate enables
`error_generic_member_access` (the expansion's `provide()` needs it whenever a backtrace field is detected).

Attribute spelling: one `#[error(..)]` may carry several parameters (`not(backtrace), source`); every parameter counts whatever its
position (a_src / a_nsrc / a_bt / a_nbt look at the parameter set).  Type spelling: a field is Backtrace-named by the LAST segment
of its type path (`Backtrace`, `std::backtrace::Backtrace`, `::std::..`, `bt::Backtrace`, `self::bt::Backtrace`: BT_TYPES).
QUICK_GROUPS (both tiers): `grpq_{st,en}_<tag>_<i>` hold <= 8 layouts behind one harness (not(..) beside the candidate, multi-parameter
attributes, Backtrace path spellings); the failing assertion names the layout.

Structure: the systematic core is one layout per program (a finding names its layout); the thorough tier adds the
wider product in groups of <= 8 layouts per program (Kani's per-harness code generation dominates the cost).
Layouts with an ignored field next to other fields are grouped apart (`grp_*_ign_*`).

Findings on the tree this was written against (each reproduced natively; repairs in /tmp/C09_fix{1,2,3}.diff):
 1. indices kept by error.rs are positions among the *enabled* fields but are used as positions among all fields
    (enum patterns, the type for the inferred generic bound, the backtrace pattern of provide()):
    `enum E { V { #[error(ignore)] a: X, #[error(source)] b: Y } }` returns `a`.
 2. `struct S(#[error(ignore)] i32, Backtrace)` panics the macro (index out of bounds in infer_source_field).
 3. a `Box<dyn Error>` source next to a detected backtrace does not compile (provide() calls `Error::provide(&box, ..)`);
    carried by the two/four PROVIDE_BOXED programs only.
"""
import collections
import itertools
import random

from vlib.core import Family, Program, Harness

# ----------------------------------------------------------------------------------------------------
# the rule model (documented rules only)
# ----------------------------------------------------------------------------------------------------
F = collections.namedtuple("F", "name ty attr")      # name None for positional fields
ERR_TYPES = {"src", "box", "boxss", "t", "ubt"}
RUST_TY = {"src": "Src", "box": "Box<dyn Error + 'static>", "boxss": "Box<dyn Error + Send + Sync + 'static>",
           "i32": "i32", "bt": "Backtrace", "t": "T", "u": "U",
           # the same std type under other path spellings: a field type is "Backtrace-named" by its LAST path segment
           # (doc/error.md: "the type of exactly one of the fields is called `Backtrace`"); `bt` = `pub use std::backtrace as bt;` of common.rs
           "btq": "std::backtrace::Backtrace", "btqq": "::std::backtrace::Backtrace", "btm": "bt::Backtrace",
           "btself": "self::bt::Backtrace",
           # a USER error type that merely happens to be called `Backtrace` (common.rs `trace::Backtrace`): Backtrace-named for the
           # by-type rules, an ordinary error type otherwise; always written with `not(backtrace)` (or an explicit mark)
           "ubt": "trace::Backtrace"}
BT_TYPES = {"bt", "btq", "btqq", "btm", "btself", "ubt"}


class Ambiguous(Exception):
    pass


class Unsettled(Exception):
    pass


# one attribute may carry several parameters; their order is irrelevant
def params(f):
    out, depth, cur = [], 0, ""
    for ch in (f.attr or ""):
        if ch == "," and depth == 0:
            out.append(cur.strip())
            cur = ""
            continue
        depth += (ch == "(") - (ch == ")")
        cur += ch
    if cur.strip():
        out.append(cur.strip())
    return out


def a_src(f): return "source" in params(f)
def a_nsrc(f): return "not(source)" in params(f)
def a_bt(f): return "backtrace" in params(f)
def a_nbt(f): return "not(backtrace)" in params(f)
def ign(f): return f.attr == "ignore"


def backtrace_of(shape, fs):
    """Which of the (index, field) pairs is the backtrace. For named fields the union of the documented
    rule (name) and the by-type inference is used: it only serves to keep the family inside programs that
    compile; it never influences EXPECT of a named layout."""
    ex = [i for i, f in fs if a_bt(f)]
    if len(ex) > 1:
        raise Ambiguous
    if ex:
        return ex[0]
    if shape == "named":
        inf = [i for i, f in fs if not a_nbt(f) and (f.name == "backtrace" or f.ty in BT_TYPES)]
    else:
        inf = [i for i, f in fs if not a_nbt(f) and f.ty in BT_TYPES]
    if len(inf) > 1:
        raise Ambiguous
    return inf[0] if inf else None


def tuple_candidate(fs):
    bt = backtrace_of("tuple", [(i, f) for i, f in fs if not ign(f)])
    if len(fs) == 1:
        i, f = fs[0]
        if bt != i and f.ty in BT_TYPES:
            # sole Backtrace-named field opted out of being the backtrace: docs rule 2 ("not used as the backtrace") says source,
            # the by-type exclusion of the tuple rule says none
            raise Unsettled
        if bt == i:
            if f.ty in BT_TYPES:
                return None          # doc rule 2: no field that is not used as the backtrace
            raise Unsettled          # `(#[error(backtrace)] Src)`: statement says sole field, docs say none
        return i
    if len(fs) == 2 and bt is not None:
        return [i for i, f in fs if i != bt][0]
    return None


def expect_reading(shape, fields, drop_ignored):
    allf = list(enumerate(fields))
    ex = [i for i, f in allf if a_src(f)]
    if len(ex) > 1:
        raise Ambiguous
    if ex:
        return ex[0]
    if shape == "named":
        c = [i for i, f in allf if f.name == "source"]
        c = c[0] if c else None
    else:
        c = tuple_candidate([(i, f) for i, f in allf if not (drop_ignored and ign(f))])
    if c is not None and (ign(fields[c]) or a_nsrc(fields[c])):
        return None
    return c


def expect(shape, fields):
    # the ignored field keeps its position and is no backtrace candidate (doc/error.md "Ignoring fields for derives") ...
    a = expect_reading(shape, fields, False)
    # ... and "fields marked ignore never change which of the remaining fields is returned": the selection on the SAME type
    # without the ignore attributes, None if the selected field is an ignored one
    try:
        c = expect_reading(shape, tuple(f._replace(attr=None) if ign(f) else f for f in fields), False)
    except Ambiguous:
        c = a           # the un-ignored type is not a program of the family: the sentence does not constrain this layout
    if c is not None and ign(fields[c]):
        c = None
    if a != c:
        raise Unsettled  # only: a tuple whose ignored field is the sole backtrace candidate (see module doc)
    return a


def valid(shape, fields):
    """inside the family: unambiguous, settled, and well-typed under the documented selection"""
    try:
        e = expect(shape, fields)
        bt = backtrace_of(shape, [(i, f) for i, f in enumerate(fields) if not ign(f)])
    except (Ambiguous, Unsettled):
        return False
    if e is not None and fields[e].ty not in ERR_TYPES:
        return False
    if bt is not None and bt != e and fields[bt].ty not in BT_TYPES:
        return False        # provide() hands `&field` to provide_ref::<Backtrace>
    return True


def boxed_source_with_backtrace(shape, fields):
    """the selected source is a Box<dyn Error> and a backtrace field is detected: the expansion's provide() then calls
    `Error::provide(&self.<box field>, ..)`, which needs `Box<dyn Error>: Error` (does not hold). Kept out of the grouped
    tail; two single programs carry it (see PROVIDE_BOXED)."""
    e = expect(shape, fields)
    bt = backtrace_of(shape, [(i, f) for i, f in enumerate(fields) if not ign(f)])
    return e is not None and bt is not None and fields[e].ty in ("box", "boxss")


# ----------------------------------------------------------------------------------------------------
# layouts
# ----------------------------------------------------------------------------------------------------
def N(name, ty="src", attr=None): return F(name, ty, attr)
def P(ty="src", attr=None): return F(None, ty, attr)


S, NS, B, NB, IGN, BS = "source", "not(source)", "backtrace", "not(backtrace)", "ignore", "backtrace, source"
# several parameters in one attribute, a `not(..)` group first / last
NB_S, S_NB, NB_NS, NS_NB = "not(backtrace), source", "source, not(backtrace)", "not(backtrace), not(source)", "not(source), not(backtrace)"

# the systematic core (shape, fields); every layout appears as a struct and as an enum variant
CORE = [
    ("unit", ()), ("tuple", ()), ("named", ()),
    # one positional field
    ("tuple", (P(),)), ("tuple", (P(attr=NS),)), ("tuple", (P(attr=IGN),)), ("tuple", (P(attr=S),)), ("tuple", (P("bt"),)),
    # one named field
    ("named", (N("source"),)), ("named", (N("other"),)), ("named", (N("other", attr=S),)),
    ("named", (N("source", attr=NS),)), ("named", (N("source", attr=IGN),)), ("named", (N("backtrace", attr=S),)),
    # two positional fields
    ("tuple", (P(), P("bt"))), ("tuple", (P("bt"), P())), ("tuple", (P(), P())),
    ("tuple", (P(attr=S), P())), ("tuple", (P(), P(attr=S))),
    ("tuple", (P("i32", IGN), P(attr=S))),                       # defect 1, positional
    ("tuple", (P("i32", IGN), P("bt"))),                         # defect 2
    ("tuple", (P(attr=NS), P("bt"))), ("tuple", (P(), P("bt", B))), ("tuple", (P(), P("bt", NB))),
    # two named fields
    ("named", (N("source"), N("other"))), ("named", (N("other"), N("source"))),
    ("named", (N("source", "i32"), N("other", attr=S))),
    ("named", (N("first", attr=IGN), N("second", attr=S))),      # defect 1 (DESIGN 2.6)
    ("named", (N("other", attr=IGN), N("source"))),              # ignored field before a source chosen by name
    ("named", (N("source"), N("other", attr=IGN))),              # ignored field after
    ("named", (N("source"), N("backtrace", "bt"))), ("named", (N("backtrace", "bt"), N("source"))),
    ("named", (N("source", attr=NS), N("other", attr=S))),
    ("named", (N("source"), N("other", attr=S))), ("named", (N("other", attr=S), N("source"))),   # explicit beats the name
    # three fields
    ("tuple", (P(), P(attr=S), P())), ("tuple", (P(), P(attr=IGN), P(attr=S))), ("tuple", (P(), P(), P("i32", IGN))),
    ("tuple", (P("bt"), P("i32", IGN), P(attr=S))),
    ("named", (N("other"), N("other2", attr=IGN), N("source"))),
    ("named", (N("other", "i32"), N("source"), N("backtrace", "bt"))),
    ("named", (N("source", attr=IGN), N("backtrace", "bt"), N("other"))),
    # an ignored field never turns an n-field tuple into an (n-1)-field tuple: EXPECT is the selection of the same type without
    # the ignore attribute (None for these), ignored field before / after, 2 and 3 fields
    ("tuple", (P("i32", IGN), P())), ("tuple", (P(), P("i32", IGN))),
    ("tuple", (P(attr=IGN), P())), ("tuple", (P(), P(attr=IGN))),
    ("tuple", (P("i32", IGN), P(), P("bt"))), ("tuple", (P(), P("bt"), P("i32", IGN))), ("tuple", (P("bt"), P(attr=IGN), P())),
    ("tuple", (P(attr=IGN), P("i32", IGN), P())), ("tuple", (P(), P(attr=IGN), P("i32", IGN))),
    # all fields of one type, the ignored one declared BEFORE the selected one and an enabled one after it: picking a wrong
    # position still type-checks and is a pointer-identity counterexample
    ("named", (N("skipped", attr=IGN), N("source"), N("other"))),
    ("named", (N("skipped", attr=IGN), N("other", attr=S), N("other2"))),
    ("tuple", (P(attr=IGN), P(attr=S), P())),
]

# `not(source)` / `not(backtrace)` on a NON-candidate field, declared before / after the candidate selected by name (named) or as the
# non-backtrace field of a two-field tuple: the un-attributed candidate stays selected.  Struct AND variant form in every tier (the
# struct path decides "is an un-attributed field enabled" from the first attributed field, the variant path does not).
NOT_ATTR_BESIDE_CANDIDATE = [
    ("named", (N("other", "i32", NB), N("source"))), ("named", (N("source"), N("other", "i32", NB))),
    ("named", (N("other", attr=NS), N("source"))), ("named", (N("source"), N("other", attr=NS))),
    ("named", (N("other", "i32", NS), N("source"), N("backtrace", "bt"))),
    ("named", (N("source"), N("other", attr=NB), N("other2", "i32"))),
    ("tuple", (P(), P("bt", NS))), ("tuple", (P("bt", NS), P())),
]
# several parameters in ONE attribute: every parameter counts, whatever its position (a `not(..)` group first, and the reverse
# order as control), on named fields, on the sole tuple field, inside a longer tuple
MULTI_PARAM = [
    ("named", (N("cause", attr=NB_S), N("code", "i32"))), ("named", (N("cause", attr=S_NB), N("code", "i32"))),
    ("named", (N("other"), N("cause", attr=NB_S))), ("named", (N("source"), N("cause", attr=NB_S))),
    ("named", (N("source", attr=NB_NS), N("other"))), ("named", (N("source", attr=NS_NB), N("other"))),
    ("tuple", (P(attr=NB_NS),)), ("tuple", (P(attr=NS_NB),)),
    ("tuple", (P("i32"), P(attr=NB_S), P("i32"))), ("tuple", (P(attr=NB_S), P())), ("tuple", (P(), P(attr=S_NB))),
]
# the two-field tuple rule / the sole-field rule with every path spelling of the Backtrace type
BACKTRACE_PATHS = [
    ("tuple", (P(), P("btq"))), ("tuple", (P("btqq"), P())), ("tuple", (P(), P("btm"))), ("tuple", (P("btself"), P())),
]
# a sole Backtrace-named field is never the source (a wrong inference does not type-check: kept apart from the two-field layouts)
BACKTRACE_PATHS_SOLE = [("tuple", (P("btq"),)), ("tuple", (P("btm"),)), ("tuple", (P("btqq"),)), ("tuple", (P("btself"),))]
# These lists are in BOTH tiers as grouped programs (<= GROUP layouts behind one harness, struct form and variant form each):
# `grpq_{st,en}_<tag>_<i>`; the failing assertion names the layout.
# rule order: "... else a field named `source`" -- whatever its TYPE is called.  A user error type named `Backtrace`, opted out of being
# the backtrace; the same type under another field name and an explicitly marked tuple field as controls.
USER_BACKTRACE_NAMED_TYPE = [
    ("named", (N("source", "ubt", NB), N("other", "i32"))), ("named", (N("other", "i32"), N("source", "ubt", NB))),
    ("named", (N("other", "ubt", NB), N("code", "i32"))), ("named", (N("other", "ubt", NB), N("source"))),
    ("named", (N("source", "ubt", NB), N("backtrace", "bt"))), ("named", (N("source", "ubt", NB_NS), N("other"))),
    ("tuple", (P("ubt", S_NB), P("i32"))),
]
QUICK_GROUPS = [("userbt", USER_BACKTRACE_NAMED_TYPE), ("notattr", NOT_ATTR_BESIDE_CANDIDATE), ("multiparam", MULTI_PARAM), ("btpath2", BACKTRACE_PATHS),
                ("btpath1", BACKTRACE_PATHS_SOLE)]

ATTRS = {"src": [None, S, NS, IGN, NB, B, BS, NB_S, NB_NS], "i32": [None, NS, IGN, NB], "bt": [None, B, NB, IGN, NS]}


def product(n, shape):
    pool = ["source", "backtrace", "other", "other2"]
    if shape == "named":
        namesets = [ns for ns in itertools.permutations(pool, n)
                    if "other2" not in ns or ("other" in ns and ns.index("other") < ns.index("other2"))]
    else:
        namesets = [(None,) * n]
    for ns in namesets:
        for tys in itertools.product(["src", "i32", "bt"], repeat=n):
            for attrs in itertools.product(*[ATTRS[t] for t in tys]):
                fs = tuple(F(ns[i], tys[i], attrs[i]) for i in range(n))
                if valid(shape, fs):
                    yield (shape, fs)


def retype(fields, i, ty):
    return tuple(f._replace(ty=ty) if j == i else f for j, f in enumerate(fields))


# ----------------------------------------------------------------------------------------------------
# Rust text
# ----------------------------------------------------------------------------------------------------
COMMON = r'''
pub use core::fmt;
pub use std::backtrace::Backtrace;
pub use std::backtrace as bt;
pub use std::error::Error;

/// probe error type: non-zero-sized, so that distinct fields have distinct addresses
#[derive(Debug)]
pub struct Src(pub u8);
impl fmt::Display for Src {
    fn fmt(&self, _f: &mut fmt::Formatter<'_>) -> fmt::Result { Ok(()) }
}
impl Error for Src {}

pub mod trace {
    /// a user error type that merely happens to be NAMED `Backtrace` (non-zero-sized probe like `Src`)
    #[derive(Debug)]
    pub struct Backtrace(pub u8);
    impl core::fmt::Display for Backtrace {
        fn fmt(&self, _f: &mut core::fmt::Formatter<'_>) -> core::fmt::Result { Ok(()) }
    }
    impl std::error::Error for Backtrace {}
}

pub type Ret<'a> = Option<&'a (dyn Error + 'static)>;

/// data address of the object a `&dyn Error` points to
pub fn thin(r: &(dyn Error + 'static)) -> *const u8 { r as *const dyn Error as *const u8 }
/// address of a place (the language's own address-of)
pub fn addr<X: ?Sized>(x: &X) -> *const u8 { x as *const X as *const u8 }
/// `r` is `Some` and refers to exactly the object at `a`
pub fn is_at(r: &Ret<'_>, a: *const u8) -> bool {
    match r { Some(e) => thin(*e) == a, None => false }
}
'''

ABBR_ATTR = {None: "", S: "_S", NS: "_nS", B: "_B", NB: "_nB", IGN: "_ign", BS: "_BS",
             NB_S: "_nB_S", S_NB: "_S_nB", NB_NS: "_nB_nS", NS_NB: "_nS_nB"}


def field_token(f):
    return (f.name + "_" if f.name else "") + f.ty + ABBR_ATTR[f.attr]


def layout_key(container, shape, fields, generic, vign):
    k = {"struct": "st", "enum": "en"}[container] + "_" + {"named": "n", "tuple": "t", "unit": "u"}[shape]
    k += "".join("__" + field_token(f) for f in fields) or "__empty"
    if generic:
        k += "__" + generic
    if vign:
        k += "__vign"
    return k


def field_decl(shape, f, vis):
    a = "#[error(%s)] " % f.attr if f.attr else ""
    if shape == "named":
        return "%s%s%s: %s" % (a, vis, f.name, RUST_TY[f.ty])
    return "%s%s%s" % (a, vis, RUST_TY[f.ty])


def body_decl(shape, fields, vis):
    if shape == "unit":
        return ""
    inner = ", ".join(field_decl(shape, f, vis) for f in fields)
    return (" { %s }" % inner) if shape == "named" else "(%s)" % inner


def title_of(container, shape, fields, generic, vign):
    g = {"": "", "gd": "<T: Error + 'static>", "gi": "<T>", "gi2": "<T, U>"}[generic]
    b = body_decl(shape, fields, "")
    if container == "struct":
        return "struct St%s%s" % (g, b or ";")
    return "enum En%s { .., %sV%s, .. }" % (g, "#[error(ignore)] " if vign else "", b)


def value_expr(ty):
    return {"src": "Src(kani::any())", "t": "Src(kani::any())", "box": "Box::new(Src(kani::any()))",
            "boxss": "Box::new(Src(kani::any()))", "i32": "kani::any::<i32>()", "u": "kani::any::<i32>()",
            "bt": "Backtrace::disabled()", "btq": "Backtrace::disabled()", "btqq": "Backtrace::disabled()",
            "btm": "Backtrace::disabled()", "btself": "Backtrace::disabled()", "ubt": "trace::Backtrace(kani::any())"}[ty]


def ctor(path, shape, fields):
    if shape == "unit":
        return path
    if shape == "named":
        return "%s { %s }" % (path, ", ".join("%s: %s" % (f.name, value_expr(f.ty)) for f in fields))
    return "%s(%s)" % (path, ", ".join(value_expr(f.ty) for f in fields))


GDECL = {"": "", "gd": "<T: Error + 'static>", "gi": "<T>", "gi2": "<T, U>"}
GUSE = {"": "", "gd": "<T>", "gi": "<T>", "gi2": "<T, U>"}
GINST = {"": "", "gd": "<Src>", "gi": "<Src>", "gi2": "<Src, i32>"}


def place(f, base):
    """address of field place `base` (for a Box<dyn Error> field: of the error it holds)"""
    return "addr(&**%s)" % base if f.ty in ("box", "boxss") else "addr(%s)" % base


def exp_text(exp):
    return "None" if exp is None else "Some(field %d)" % exp


def struct_items(sfx, shape, fields, generic):
    """Rust items for one struct layout: (items outside proofs, block inside the harness, exp)"""
    exp = expect(shape, fields)
    st, ty = "St" + sfx, "Ty" + sfx
    if exp is None:
        post = "r.is_none()"
    else:
        member = fields[exp].name if shape == "named" else str(exp)
        post = "is_at(r, %s)" % place(fields[exp], "&v.%s" % member)
    items = r"""
#[derive(Debug, derive_more::Error)]
pub struct %(st)s%(gdecl)s%(body)s%(semi)s
impl%(gdecl)s fmt::Display for %(st)s%(guse)s {
    fn fmt(&self, _f: &mut fmt::Formatter<'_>) -> fmt::Result { Ok(()) }
}
pub type %(ty)s = %(st)s%(ginst)s;
/// Post-condition of `<%(ty)s as Error>::source(v)`; EXPECT = %(exp)s (rule order of the property statement).
pub fn post_source%(sfx)s(v: &%(ty)s, r: &Ret<'_>) -> bool {
    %(post)s
}
""" % dict(st=st, ty=ty, sfx=sfx, gdecl=GDECL[generic], guse=GUSE[generic], ginst=GINST[generic],
           body=body_decl(shape, fields, "pub "), semi="" if shape == "named" else ";", exp=exp_text(exp), post=post)
    return items, ctor(st, shape, fields), exp


def enum_items(variants, generic, pos):
    """variants: [(vname, shape, fields, vign)]; `Unit` and `W(Src)` are added so that Some and None are both reachable"""
    decls, arms, ctors, exps = [], [], [], []
    for vname, shape, fields, vign in variants:
        exp = None if vign else expect(shape, fields)
        exps.append(exp)
        decls.append("%s%s%s" % ("#[error(ignore)] " if vign else "", vname, body_decl(shape, fields, "")))
        binds = ["f%d" % i for i in range(len(fields))]
        if shape == "unit":
            pat = "En::%s" % vname
        elif shape == "named":
            pat = "En::%s { %s }" % (vname, ", ".join("%s: %s" % (f.name, b) for f, b in zip(fields, binds)))
        else:
            pat = "En::%s(%s)" % (vname, ", ".join(binds))
        arms.append("%s => %s," % (pat, "r.is_none()" if exp is None else "is_at(r, %s)" % place(fields[exp], "f%d" % exp)))
        ctors.append(ctor("En::" + vname, shape, fields))
    extra = ["Unit", "W(Src)"]
    p = pos % (len(decls) + 1)
    all_decls = decls[:p] + [extra[0]] + decls[p:] + [extra[1]]
    if pos % 2:
        all_decls = [extra[1]] + decls[:p] + [extra[0]] + decls[p:]
    items = r"""
#[derive(Debug, derive_more::Error)]
pub enum En%(gdecl)s {
%(decls)s
}
impl%(gdecl)s fmt::Display for En%(guse)s {
    fn fmt(&self, _f: &mut fmt::Formatter<'_>) -> fmt::Result { Ok(()) }
}
pub type Ty = En%(ginst)s;
/// Post-condition of `<Ty as Error>::source(v)`; EXPECT per variant: %(exp)s (rule order of the property statement).
pub fn post_source(v: &Ty, r: &Ret<'_>) -> bool {
    match v {
        En::Unit => r.is_none(),
        En::W(w) => is_at(r, addr(w)),
        %(arms)s
    }
}
""" % dict(gdecl=GDECL[generic], guse=GUSE[generic], ginst=GINST[generic], decls="\n".join("    %s," % d for d in all_decls),
           exp=", ".join("%s: %s" % (v[0], exp_text(e)) for v, e in zip(variants, exps)), arms="\n        ".join(arms))
    return items, ctors, exps


# SPLIT_NOTE: Kani de-duplicates the concrete-playback tests of one harness by their input values and may keep the test of a
# `cover!` instead of the one of the failed assertion (then the core finds no counterexample to replay). The harness therefore
# draws one extra symbolic bool: `true` runs the reachability probes, `false` asserts the post-condition. The bool is independent of
# the value under test, so the assertion is still checked for every value; the two kinds of trace can no longer coincide.
HARNESS_HEAD = "        let v = core::mem::ManuallyDrop::new(%s);   // drop glue (Backtrace, Box) is not part of the obligation\n" \
               "        let v: &%s = &v;\n        let r = <%s as Error>::source(v);\n"


def struct_program(key, title, layouts, with_contract=False, with_control=False):
    """layouts: [(shape, fields, generic, label)]; one harness checks every struct of the program"""
    single = len(layouts) == 1
    items, blocks, exps = [], [], []
    for i, (shape, fields, generic, label) in enumerate(layouts):
        sfx = "" if single else str(i)
        it, c, exp = struct_items(sfx, shape, fields, generic)
        items.append(it)
        exps.append(exp)
        blocks.append("        {\n    " + (HARNESS_HEAD % (c, "Ty" + sfx, "Ty" + sfx)).replace("\n        ", "\n            ") +
                      '            if kani::any::<bool>() {   // reachability probes on their own path, see SPLIT_NOTE\n' +
                      '                kani::cover!(r.is_%s(), "expected branch reachable (%s)");\n' % ("some" if exp is not None else "none", label) +
                      '            } else {\n                assert!(post_source%s(v, &r), "post_source %s");\n            }\n        }' % (sfx, label))
    hs = [Harness("ob_source", "forall field values. post_source(v, v.source()); EXPECT = %s"
                  % "; ".join("%s: %s" % (l[3], exp_text(e)) for l, e in zip(layouts, exps)),
                  fn="<St* as Error>::source (expansion of #[derive(derive_more::Error)])", cover_min=len(layouts))]
    src = "\nuse crate::common::*;\n" + "".join(items) + "\n#[cfg(kani)]\nmod proofs {\n    use super::*;\n" \
          "    #[kani::proof]\n    fn ob_source() {\n" + "\n".join(blocks) + "\n    }\n    // PLAYBACK-INSERTION-POINT\n}\n"
    return Program(key, title, src, hs, meta=dict(expect=exps))


def enum_program(key, title, variants, generic="", pos=1, with_contract=False, with_control=False):
    items, ctors, exps = enum_items(variants, generic, pos)
    n = len(variants)
    mk = "    fn mk() -> Ty {\n        match kani::any::<u8>() {\n" + \
         "".join("            %d => %s,\n" % (i, c) for i, c in enumerate(ctors)) + \
         "            %d => En::Unit,\n            _ => En::W(Src(kani::any())),\n        }\n    }\n" % n
    covers = "".join('        kani::cover!(matches!(v, En::%s { .. }), "variant %s reachable");\n' % (v[0], v[0]) for v in variants)
    covers += '        kani::cover!(r.is_some(), "Some reachable");\n        kani::cover!(r.is_none(), "None reachable");\n'
    if n == 1:
        asserts = '        assert!(post_source(v, &r), "post_source");\n'
    else:
        asserts = "".join('        if matches!(v, En::%s { .. }) { assert!(post_source(v, &r), "post_source %s = %s"); }\n'
                          % (v[0], v[0], layout_key("enum", v[1], v[2], generic, v[3])) for v in variants)
        asserts += '        assert!(post_source(v, &r), "post_source");\n'
    body = "    #[kani::proof]\n    fn ob_source() {\n" + (HARNESS_HEAD % ("mk()", "Ty", "Ty")) + \
           "        if kani::any::<bool>() {   // reachability probes on their own path, see SPLIT_NOTE\n" + covers.replace("\n        ", "\n            ").replace("        kani", "            kani", 1) + \
           "        } else {\n" + asserts.replace("\n        ", "\n            ").replace("        ", "            ", 1) + "        }\n    }\n"
    fn = "<En as Error>::source (expansion of #[derive(derive_more::Error)])"
    hs = [Harness("ob_source", "forall variants, field values. post_source(v, v.source()); EXPECT = %s"
                  % "; ".join("%s: %s" % (v[0], exp_text(e)) for v, e in zip(variants, exps)), fn=fn, cover_min=n + 2)]
    contract_fn = ""
    if with_contract:
        contract_fn = "\n#[cfg_attr(kani, kani::ensures(|r| post_source(v, r)))]\n" \
                      "pub fn source_contract(v: &Ty) -> Ret<'_> { <Ty as Error>::source(v) }\n"
        body += "    #[kani::proof_for_contract(source_contract)]\n" \
                "    fn ob_contract() { let v = core::mem::ManuallyDrop::new(mk()); source_contract(&v); }\n"
        hs.append(Harness("ob_contract", "#[kani::ensures(post_source)] on source_contract, proof_for_contract", kind="contract",
                          fn="source_contract (thin wrapper of the generated source())"))
    if with_control:
        # false for the variant under test (it claims that only W ever has a source)
        body += "    #[kani::proof]\n    fn control_false_post() {\n" + (HARNESS_HEAD % ("mk()", "Ty", "Ty")) + \
                '        assert!(r.is_none() || matches!(v, En::W(..)), "deliberately false post-condition");\n    }\n'
        hs.append(Harness("control_false_post", "deliberately false post-condition (only W has a source) must FAIL", kind="negative_control"))
    src = "\nuse crate::common::*;\n" + items + contract_fn + "\n#[cfg(kani)]\nmod proofs {\n    use super::*;\n" + mk + body + \
          "    // PLAYBACK-INSERTION-POINT\n}\n"
    return Program(key, title, src, hs, meta=dict(expect=exps))


# ----------------------------------------------------------------------------------------------------
# the family
# ----------------------------------------------------------------------------------------------------
def flavours(shape, fields):
    """type flavours of one layout: the field the rules select (or, for a None layout, the first error field)
    becomes Box<dyn Error>, Box<dyn Error + Send + Sync>, a type parameter with declared / inferred bound"""
    e = expect(shape, fields)
    tgt = e
    if tgt is None:
        c = [i for i, f in enumerate(fields) if f.ty == "src"]
        if not c:
            return
        tgt = c[0]
    if fields[tgt].ty != "src":
        return
    for ty, g in (("box", ""), ("boxss", ""), ("t", "gd"), ("t", "gi")):
        yield retype(fields, tgt, ty), g
    if any(f.ty == "i32" for f in fields):
        yield tuple(f._replace(ty="u") if f.ty == "i32" else f for f in retype(fields, tgt, "t")), "gi2"


QUICK_FLAVOURED = [("named", (N("source"), N("other"))), ("tuple", (P(),)), ("tuple", (P("i32", IGN), P(attr=S))),
                   ("named", (N("source", attr=NS), N("other", attr=S)))]
VIGN = [("named", (N("source"), N("other", "i32"))), ("tuple", (P(),)), ("named", (N("other", attr=S),)), ("tuple", (P(), P("bt")))]
VIGN_MORE = [("tuple", (P("i32", IGN), P(attr=S))), ("named", (N("other", "i32"),)), ("tuple", (P("i32"), P("i32"))),
             ("named", (N("source", "box"),)), ("unit", ())]
PROVIDE_BOXED = [("named", (N("source", "box"), N("backtrace", "bt"))), ("tuple", (P("boxss"), P("bt")))]
REPRESENTATIVE = ("named", (N("other"), N("source")))       # selection by name, not the first field


def check_in_family(shape, fields):
    if not valid(shape, tuple(f._replace(ty={"u": "i32"}.get(f.ty, f.ty)) for f in fields)):
        raise AssertionError("layout outside the family: %r" % (fields,))


def singles(tier):
    """(container, shape, fields, generic, vign): one layout per program, so that a finding names its layout"""
    out, seen = [], set()

    def add(container, shape, fields, generic="", vign=False):
        check_in_family(shape, fields)
        k = layout_key(container, shape, fields, generic, vign)
        if k not in seen:
            seen.add(k)
            out.append((container, shape, fields, generic, vign))

    for shape, fields in CORE:
        add("enum", shape, fields)
        # quick: the struct form as well wherever struct and variant rendering can differ (ignored fields) and for <= 1 field
        # ... and wherever the selected field is not the first one (member access `self.<i>` vs pattern binding)
        if tier == "thorough" or any(ign(f) for f in fields) or len(fields) <= 1 or (expect(shape, fields) or 0) > 0:
            add("struct", shape, fields)
    for shape, fields in QUICK_FLAVOURED:
        for fs, g in flavours(shape, fields):
            if g == "gd":
                add("struct", shape, fs, g)
            elif g == "gi2":
                add("struct", shape, fs, g)
                add("enum", shape, fs, g)
            else:
                add("enum", shape, fs, g)
                if fs[expect(shape, fs) or 0].ty == "box" or any(f.ty == "box" for f in fs):
                    add("struct", shape, fs, g)       # member access on a Box<dyn Error> field
    add("struct", "named", (N("source", "ubt", NB), N("other", "t")), "gd")      # generic: the by-name source beside a field of type T
    for shape, fields in VIGN + (VIGN_MORE if tier == "thorough" else []):
        add("enum", shape, fields, vign=True)
    for shape, fields in PROVIDE_BOXED:
        add("struct", shape, fields)
        if tier == "thorough":
            add("enum", shape, fields)
    return out


# ----------------------------------------------------------------------------------------------------
# "ambiguous selections are compile errors rather than arbitrary choices": must-reject programs
# ----------------------------------------------------------------------------------------------------
# One program per ambiguity that impl/src/error.rs documents as a diagnostic ("Multiple `source` attributes specified. Single attribute
# per struct/enum variant allowed.", the same for `backtrace`, "Conflicting fields found. ..." for several inferred candidates; several
# inferred *source* candidates cannot be written: one field name `source` per type, sole field of a tuple).  Each module holds only the
# type definition + a hand-written Display, every field is well-typed for whichever field an arbitrary choice would pick (so the derive's
# own diagnostic is the ONLY reason it can fail to compile); rustc rejecting it discharges the obligation, acceptance is `<key>/rejection`.
MUST_REJECT = [
    ("rej_st_n_two_explicit_source", "struct", "named", (N("first", attr=S), N("second", attr=S))),
    ("rej_st_t_two_explicit_source", "struct", "tuple", (P(attr=S), P(attr=S))),
    ("rej_en_n_two_explicit_source", "enum", "named", (N("first", attr=S), N("second", attr=S))),
    ("rej_en_t_two_explicit_source", "enum", "tuple", (P(attr=S), P(attr=S))),
    ("rej_st_n_explicit_source_on_other_and_on_source", "struct", "named", (N("other", attr=S), N("source", attr=S))),
    ("rej_st_t3_two_explicit_source_around_ignored", "struct", "tuple", (P(attr=S), P("i32", IGN), P(attr=S))),
    ("rej_en_n3_two_explicit_source_after_plain", "enum", "named", (N("other"), N("second", attr=S), N("third", attr=S))),
    ("rej_st_t_two_explicit_backtrace", "struct", "tuple", (P("bt", B), P("bt", B), P())),
    ("rej_st_t_two_backtrace_typed_fields", "struct", "tuple", (P("bt"), P("bt"), P())),
    ("rej_st_n_backtrace_by_name_and_by_type", "struct", "named", (N("backtrace", "bt"), N("other", "bt"), N("source"))),
]


def reject_program(key, container, shape, fields):
    body = body_decl(shape, fields, "pub " if container == "struct" else "")
    if container == "struct":
        decl = "pub struct St%s%s" % (body, "" if shape == "named" else ";")
        name = "St"
    else:
        decl = "pub enum En {\n    Unit,\n    V%s,\n}" % body
        name = "En"
    src = "\nuse crate::common::*;\n\n#[derive(Debug, derive_more::Error)]\n%s\nimpl fmt::Display for %s {\n" \
          "    fn fmt(&self, _f: &mut fmt::Formatter<'_>) -> fmt::Result { Ok(()) }\n}\n" % (decl, name)
    title = title_of(container, shape, fields, "", False) + "   [must be rejected: ambiguous selection]"
    return Program(key, title, src, [], expect_compile=False)


GROUP = 8
THOROUGH_NAMED2 = 400
THOROUGH_N3 = 600


def tail(seed):
    """thorough only: the wider product, GROUP layouts per program (Kani's per-harness code generation, ~1.4 s, is the
    cost driver; one enum with 8 variants under test / 8 structs behind one harness cost the same as one layout).
    Returns [(container, tag, generic, [(shape, fields, vign)])]."""
    rng = random.Random(seed)
    full = []
    for n in (1, 2):
        for shape in ("named", "tuple"):
            full += list(product(n, shape))
    n3 = list(product(3, "tuple")) + list(product(3, "named"))
    small = [(sh, fs) for sh, fs in full if len(fs) == 1 or sh == "tuple"]
    named2 = [(sh, fs) for sh, fs in full if len(fs) == 2 and sh == "named"]
    # deterministic systematic part + seeded random tail of the big products
    pick = small + random.Random(0).sample(named2, min(len(named2), THOROUGH_NAMED2)) + rng.sample(n3, min(len(n3), THOROUGH_N3))
    pick += [(sh, fs) for sh, fs in CORE if fs]
    buckets = collections.OrderedDict()
    seen = set()

    def put(container, generic, shape, fields, vign=False):
        k = layout_key(container, shape, fields, generic, vign)
        if k in seen or boxed_source_with_backtrace(shape, fields):
            return
        seen.add(k)
        check_in_family(shape, fields)
        # layouts with an ignored field next to other fields get programs of their own (`.._ign_..`): a defect in the handling
        # of ignored fields then does not take the groups of plain layouts down with it
        tag = generic + ("_ign" if len(fields) >= 2 and any(ign(f) for f in fields) else "")
        buckets.setdefault((container, tag, generic), []).append((shape, fields, vign))

    for shape, fields in pick:
        # struct and variant rendering differ only in pattern vs member access: take both whenever an ignored field precedes
        # another field (where positions can shift) or there is at most one field; otherwise one of them
        shifted = any(ign(f) for f in fields[:-1])
        both = shifted or len(fields) <= 1
        cs = ("struct", "enum") if both else (("enum",) if rng.random() < 0.6 else ("struct",))
        for c in cs:
            put(c, "", shape, fields, vign=(c == "enum" and rng.random() < 0.06))
        if shifted or rng.random() < 0.25:
            fl = list(flavours(shape, fields))
            for fs, g in (fl if shifted else [rng.choice(fl)] if fl else []):
                put(rng.choice(("struct", "enum")), g, shape, fs)
    groups = []
    for (container, tag, generic), ls in buckets.items():
        for i in range(0, len(ls), GROUP):
            groups.append((container, tag, generic, ls[i:i + GROUP]))
    return groups


def family(tier, seed):
    progs = []
    rep = None
    for i, (container, shape, fields, generic, vign) in enumerate(singles(tier)):
        key = layout_key(container, shape, fields, generic, vign)
        title = title_of(container, shape, fields, generic, vign)
        if container == "struct":
            progs.append(struct_program(key, title, [(shape, fields, generic, "St")]))
        else:
            is_rep = rep is None and (shape, fields, generic, vign) == REPRESENTATIVE + ("", False)
            if is_rep:
                rep = key
            progs.append(enum_program(key, title, [("V", shape, fields, vign)], generic, pos=i, with_contract=is_rep, with_control=is_rep))
    assert rep is not None
    n_grouped = 0
    for tag, lst in QUICK_GROUPS:
        for gi in range(0, len(lst), GROUP):
            ls = lst[gi:gi + GROUP]
            for shape, fields in ls:
                check_in_family(shape, fields)
            n_grouped += 2 * len(ls)
            lay = [(sh, fs, "", "St%d = %s" % (j, layout_key("struct", sh, fs, "", False))) for j, (sh, fs) in enumerate(ls)]
            title = " | ".join(title_of("struct", sh, fs, "", False).replace("St", "St%d" % j, 1) for j, (sh, fs) in enumerate(ls))
            progs.append(struct_program("grpq_st_%s_%d" % (tag, gi // GROUP), title, lay))
            vs = [("V%d" % j, sh, fs, False) for j, (sh, fs) in enumerate(ls)]
            title = "enum En { Unit, W(Src), %s }" % ", ".join("V%d%s" % (j, body_decl(sh, fs, "")) for j, (sh, fs) in enumerate(ls))
            progs.append(enum_program("grpq_en_%s_%d" % (tag, gi // GROUP), title, vs, "", pos=gi // GROUP + 1))
    n_tail = 0
    if tier == "thorough":
        count = collections.Counter()
        for container, tag, generic, ls in tail(seed):
            idx = count[(container, tag)]
            count[(container, tag)] += 1
            key = "grp_%s%s_%03d" % ({"struct": "st", "enum": "en"}[container], "_" + tag.strip("_") if tag else "", idx)
            n_tail += len(ls)
            if container == "struct":
                lay = [(sh, fs, generic, "St%d = %s" % (j, layout_key("struct", sh, fs, generic, False))) for j, (sh, fs, _) in enumerate(ls)]
                title = " | ".join(title_of("struct", sh, fs, generic, False).replace("St", "St%d" % j, 1) for j, (sh, fs, _) in enumerate(ls))
                progs.append(struct_program(key, title, lay))
            else:
                vs = [("V%d" % j, sh, fs, vg) for j, (sh, fs, vg) in enumerate(ls)]
                title = "enum En%s { Unit, W(Src), %s }" % (GDECL[generic], ", ".join(
                    "%sV%d%s" % ("#[error(ignore)] " if vg else "", j, body_decl(sh, fs, "")) for j, (sh, fs, vg) in enumerate(ls)))
                progs.append(enum_program(key, title, vs, generic, pos=idx))
    n_single = len(progs) if tier == "quick" else len(singles(tier))
    for key, container, shape, fields in MUST_REJECT:
        progs.append(reject_program(key, container, shape, fields))
    return Family(
        "C09", progs, common_src=COMMON,
        crate_attrs="#![feature(error_generic_member_access)]",
        kani_flags=["-Z", "function-contracts"],
        level="proof",
        functions_under_contract=[
            "generated <T as Error>::source for every struct / enum of the family (expanded by /repo/impl/src/error.rs through "
            "utils::State::enabled_fields_data and MultiFieldData::matcher)",
            "derive_more::__private::AsDynError::as_dyn_error (src/vendor/thiserror/aserror.rs) for T: Error, dyn Error, dyn Error + Send + Sync",
        ],
        trusted_base=["address-of / field access of the language as the definition of 'the field f_i'",
                      "Box<dyn Error> deref (`&**b`) as the definition of 'the error it holds'"],
        assumptions=["Backtrace-typed fields hold Backtrace::disabled() (source() never reads them); values are wrapped in ManuallyDrop "
                     "(drop glue of Backtrace/Box is not part of the obligation)",
                     "generic programs are verified at the instantiation T = Src (U = i32)",
                     "an ignored field keeps its position (EXPECT = selection on the type without the ignore attributes, None if the selected "
                     "field is ignored); excluded as unsettled: tuples whose ignored field is the only backtrace candidate "
                     "(`St(Src, #[error(ignore)] Backtrace)`: property sentence vs. doc/error.md) and `(#[error(backtrace)] E)` without an "
                     "explicit source",
                     "must-reject programs (rej_*) are type-level obligations discharged by rustc: the only error they can raise is the "
                     "derive's own diagnostic"],
        rule="one program per layout (field names x types x attributes; struct | enum variant at a rotating position; type flavour) for the "
             "systematic core (%d programs); thorough adds %d layouts of the wider product in groups of <= %d per program (one enum with that "
             "many variants under test, or that many structs behind one harness). Every obligation quantifies over all field values and, "
             "for enums, over all variants incl. Unit and W(Src); distinct = harnesses discharged. Plus %d must-reject programs "
             "(ambiguous selections the derive documents as diagnostics), discharged by rustc" % (n_single, n_tail, GROUP, len(MUST_REJECT)),
        extra_cov={"layouts": n_single + n_tail + n_grouped},
    )
