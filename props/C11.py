"""C11 -- variant accessors agree with the value's variant and never lose data.

Every program is one enum on which the REAL macros of /repo expand one of
`IsVariant`, `Unwrap`, `TryUnwrap`, `TryInto` (or all four).  For the concrete instantiation `Ty` of the
enum `kani::Arbitrary` is written by hand (variant chosen by a symbolic u8, every payload field symbolic),
so each harness quantifies over EVERY value of the enum and, inside, over every accessor of that kind.

Contracts (all taken from the property statement; the oracle is the language's own pattern match on
the value, field access, `==` of std-derived `PartialEq` of the probe payloads, and `core::ptr::eq`
with the field's own address -- never the expander's match arms):

    post_is_x(v, r)              := r == matches!(v, En::X ..)
    post_unwrap_x(v, r)          := v is X(f0..fn)  &&  r == (f0..fn)            (declaration order)
    post_unwrap_x_ref(v, r)      := v is X(f0..fn)  &&  ptr::eq(r.i, &v.fi)  for all i
    post_unwrap_x_mut(v, v', p, n) := v was X && v' is X(g0..gn) && ptr::eq(p.i, &v'.gi) && gi == ni
                                    (p = the returned `&mut`s as addresses, n = values written through them)
    v is not X                   => unwrap_x / unwrap_x_ref / unwrap_x_mut do not return and panic (see no_return below)
    post_try_unwrap_x*(v, r)     := v is X => r == Ok(as unwrap) ; otherwise r == Err(e) && e.input == v
                                    (ref forms: ptr::eq(e.input, &v), and v unchanged)
    post_try_into_k*(v, r)       := v is one of the non-ignored variants whose non-ignored field types are the
                                    target tuple k => r == Ok(those fields in order) (ref forms: ptr::eq) ;
                                    otherwise r == Err(e) && e.input == v (ref forms: ptr::eq(e.input, &v))
    names                        := the generator computes snake_case(variant name) itself (rule below) and calls
                                    `is_<s>`, `unwrap_<s>[_ref|_mut]`, `try_unwrap_<s>[_ref|_mut]`; a wrong name does not build.

Shapes `sole_unit` / `sole_tuple` / `sole_named`: exactly ONE non-ignored variant among ignored ones (the partition property
with a one-element enabled set), the enabled variant carrying an ignored field between two same-typed non-ignored ones.
Every owned/ref/ref_mut selection (none, `ref`, `ref_mut`, `ref, ref_mut`) occurs alone in the quick tier for Unwrap and TryUnwrap.
Shapes `ign_first` / `ign_mid` (an ignored variant before >= 2 same-payload variants) come as ONE PROGRAM PER ACCESSOR
(`*_only_<x>`, Gen.only): a module that calls a single accessor still builds when another accessor is missing or misnamed, so a
right name carrying the wrong variant's body is a value-level counterexample (Ok side and never-returns side), not only a build failure.
Shape `ign_then_mark`: leading `#[x(ignore)]` variant, attribute-less variants, later a variant with an enabling attribute
(`#[try_into(ref)]`, `#[unwrap(ref)]`, `#[try_unwrap(ref_mut)]`, bare `#[is_variant]`), no enum-level attribute: the attribute-less
variants are non-ignored, so their owned accessors exist / they stay in the owned TryFrom group.  Only owned forms are called there.

Shapes `ti_varsel` / `ti_varsel2` (TryInto, no enum-level attribute, same-typed variants naming different kinds at the variant level):
a variant takes part in the `ref` / `ref_mut` impls of its field-type tuple iff it names that kind -- every (variant, ref) and
(variant, ref_mut) pair is an obligation (Ok with ptr::eq fields / Err with the original).  By value: Ok for the variants that name
`owned`; a same-typed variant that names only reference kinds is left UNCONSTRAINED (not settled by the statement, and the macro's
answer depends on which variant is attributed first: utils.rs `owned:` default); every other variant is Err with the original.

"does not return" (kind="no_return" harnesses, see AUTHORING.md): `#[kani::proof] #[kani::should_panic]`, the input is
restricted (kani::assume) to the wrong variants, the accessor is called and the next statement is
`kani::cover!(true, "RETURNED")`, the only cover of the harness.  The core discharges the obligation iff Kani reports
the should_panic harness SUCCESSFUL (>= 1 panic, nothing but panics) AND that cover is unreachable; a satisfiable cover
is replayed natively (reproduced iff the native run does not panic).
"""
from vlib.core import Family, Program, Harness

COMMON = r'''
pub use core::ptr;
pub use derive_more::{IsVariant, TryInto, TryIntoError, TryUnwrap, TryUnwrapError, Unwrap};

macro_rules! probe {
    ($n:ident, $t:ty) => {
        /// non-zero-sized payload probe; its value is symbolic in every harness
        #[derive(Clone, Copy, PartialEq, Eq, Debug)]
        #[cfg_attr(kani, derive(kani::Arbitrary))]
        pub struct $n(pub $t);
    };
}
probe!(P1, u8);
probe!(P2, u16);
probe!(P3, u32);
probe!(P4, u64);

/// a local generic payload type (so that `TryFrom<En<T>> for Wrap<T>` satisfies the orphan rules)
#[derive(Clone, Copy, PartialEq, Eq, Debug)]
#[cfg_attr(kani, derive(kani::Arbitrary))]
pub struct Wrap<T>(pub T);

/// a `'static` reference to a fresh symbolic value (payloads of type `&'a X`)
pub fn leak<X>(x: X) -> &'static X {
    Box::leak(Box::new(x))
}
'''


# ------------------------------------------------------------------------------------------------
# snake_case, computed by the generator itself (NOT by asking the macro):
#   words are split at `_`, at lower->Upper, at letter<->digit, and inside an upper-case run before
#   the last capital when a lower-case letter follows (XMLThing -> XML|Thing); words are lower-cased
#   and joined by `_`.   HttpError -> http_error, V2 -> v_2, XMLThing -> xml_thing, IOError -> io_error.
# ------------------------------------------------------------------------------------------------
def snake(name):
    words, cur = [], ""
    cs = list(name)
    for i, c in enumerate(cs):
        if c == "_":
            if cur:
                words.append(cur)
            cur = ""
            continue
        if cur:
            p = cur[-1]
            nxt = cs[i + 1] if i + 1 < len(cs) else ""
            if (p.islower() and c.isupper()) or (p.isalpha() and c.isdigit()) or (p.isdigit() and c.isalpha()) \
                    or (p.isupper() and c.isupper() and nxt.islower()):
                words.append(cur)
                cur = ""
        cur += c
    if cur:
        words.append(cur)
    return "_".join(w.lower() for w in words)


assert [snake(x) for x in ("HttpError", "V2", "XMLThing", "IOError", "Http2Error", "Nothing", "ABc", "NoRef")] == \
    ["http_error", "v_2", "xml_thing", "io_error", "http_2_error", "nothing", "a_bc", "no_ref"]


# ------------------------------------------------------------------------------------------------
# enum descriptions
# ------------------------------------------------------------------------------------------------
class F:
    """one field: type as declared (may mention generic parameters), type in the instantiation `Ty`,
    expression producing a symbolic value, optional field name, ignored by TryInto?"""

    def __init__(self, decl, inst=None, anyx=None, name=None, ti_ignore=False):
        self.decl, self.inst = decl, inst or decl
        if anyx is None:
            if self.inst.startswith("&'static "):
                anyx = "leak(kani::any::<%s>())" % self.inst[len("&'static "):]
            else:
                anyx = "kani::any::<%s>()" % self.inst
        self.anyx = anyx
        self.name, self.ti_ignore = name, ti_ignore


class V:
    def __init__(self, name, kind="unit", fields=(), ignore=(), mark=None):
        # kind: unit | tuple | named ; ignore: subset of {"is_variant","unwrap","try_unwrap","try_into"}
        # mark: {derive: "ref" | "ref_mut" | "owned" | ""}: an ENABLING variant-level attribute (`#[unwrap(ref)]`, bare `#[is_variant]`)
        self.name, self.kind, self.fields, self.ignore = name, kind, list(fields), set(ignore)
        self.mark = dict(mark or {})
        self.snake = snake(name)

    def anypat(self):
        return "En::%s%s" % (self.name, {"unit": "", "tuple": "(..)", "named": " { .. }"}[self.kind])

    def pat(self, binders):
        """pattern binding field i to binders[i] (a name or `_`)"""
        if self.kind == "unit":
            return "En::" + self.name
        if self.kind == "tuple":
            return "En::%s(%s)" % (self.name, ", ".join(binders))
        return "En::%s { %s }" % (self.name, ", ".join("%s: %s" % (f.name, b) for f, b in zip(self.fields, binders)))

    def decl(self, derives):
        attrs = "".join("    #[%s(ignore)]\n" % a for a in ("is_variant", "unwrap", "try_unwrap", "try_into")
                        if a in self.ignore and a in derives)
        attrs += "".join("    #[%s%s]\n" % (a, "(%s)" % self.mark[a] if self.mark[a] else "")
                         for a in ("is_variant", "unwrap", "try_unwrap", "try_into") if a in self.mark and a in derives)

        def fd(f):
            ig = "#[try_into(ignore)] " if (f.ti_ignore and "try_into" in derives) else ""
            return ig + (("%s: " % f.name) if self.kind == "named" else "") + f.decl

        body = {"unit": "", "tuple": "(%s)" % ", ".join(fd(f) for f in self.fields),
                "named": " { %s }" % ", ".join(fd(f) for f in self.fields)}[self.kind]
        return "%s    %s%s," % (attrs, self.name, body)

    def any_expr(self):
        if self.kind == "unit":
            return "En::" + self.name
        if self.kind == "tuple":
            return "En::%s(%s)" % (self.name, ", ".join(f.anyx for f in self.fields))
        return "En::%s { %s }" % (self.name, ", ".join("%s: %s" % (f.name, f.anyx) for f in self.fields))


class Shape:
    def __init__(self, key, variants, gdecl="", guse="", where="", named_ok=False):
        self.key, self.variants, self.gdecl, self.guse, self.where = key, variants, gdecl, guse, where

    def title(self, derives, attr):
        return "#[derive(%s)] %s enum En%s%s { %s }" % (
            ", ".join(DERIVE_NAME[d] for d in derives), attr, self.gdecl, (" " + self.where) if self.where else "",
            " ".join(" ".join(v.decl(derives).split()) for v in self.variants))


DERIVE_NAME = {"is_variant": "IsVariant", "unwrap": "Unwrap", "try_unwrap": "TryUnwrap", "try_into": "TryInto"}
NAMED_IGN = ("unwrap", "try_unwrap")  # Unwrap / TryUnwrap do not support named variants: they are always ignored there


def V_tuple_fields(types):
    return [F(t) if isinstance(t, str) else t for t in types]


def T(name, *types, **kw):
    return V(name, "tuple", V_tuple_fields(types), **kw)


def N(name, *fields, **kw):
    ign = set(kw.pop("ignore", ())) | set(NAMED_IGN)
    return V(name, "named", list(fields), ignore=ign, **kw)


def U(name, **kw):
    return V(name, "unit", [], **kw)


def shapes():
    S = {}
    S["maybe"] = Shape("maybe", [U("Nothing"), T("Just", "P1")])
    # several variants sharing one field-type tuple, neighbours with equal types, same-typed fields inside one variant
    S["shared"] = Shape("shared", [
        T("A", "P1"), T("B", "P1"), U("U1"), T("Pair", "P1", "P2"), T("Swapped", "P2", "P1"), T("PairTwin", "P1", "P2"),
        T("Triple", "P1", "P1", "P1"), U("U2"), T("Empty")])
    # multi-word names: snake_case matters
    S["names"] = Shape("names", [
        T("HttpError", "P1"), T("V2", "P2"), U("XMLThing"), T("IOError", "P1", "P1"), T("Http2Error", "P3"),
        U("NoRefIgnored"), T("ABc", "P2", "P1")])
    # generic parameters (lifetime, type, const) with a where clause
    S["generic"] = Shape("generic", [
        T("Ref", F("&'a T", "&'static P3")), T("Arr", F("[P1; N]", "[P1; 2]")), T("Own", F("T", "P3")),
        T("Both", F("T", "P3"), "P2"), T("TwoOfT", F("T", "P3"), F("T", "P3")), U("Nil")],
        gdecl="<'a, T: Copy, const N: usize>", guse="<'static, P3, 2>", where="where T: 'a")
    # ignored variants (per derive), named variants (IsVariant / TryInto only), ignored fields (TryInto)
    S["ignored"] = Shape("ignored", [
        T("Plain", "P2"),
        T("Skipped", "P2", ignore=("is_variant", "unwrap", "try_unwrap", "try_into")),
        T("Mixed", F("P1", ti_ignore=True), "P2"),
        N("Named", F("P1", name="skip", ti_ignore=True), F("P2", name="x")),
        N("NamedPair", F("P1", name="x"), F("P2", name="y")),
        T("TuplePair", "P1", "P2"),
        T("MidIgnored", "P1", F("P1", ti_ignore=True), "P2"),
        U("Unit"),
        U("UnitSkipped", ignore=("is_variant", "unwrap", "try_unwrap", "try_into")),
        N("NamedOne", F("P1", name="only"))])
    # generic enum for TryInto: targets must satisfy the orphan rules, so `T` occurs below a local type or in a tuple
    S["generic_ti"] = Shape("generic_ti", [
        T("Ref", F("&'a P3", "&'static P3")), T("Arr", F("[P1; N]", "[P1; 2]")), T("Wrapped", F("Wrap<T>", "Wrap<P3>")),
        T("Both", F("Wrap<T>", "Wrap<P3>"), "P2"), T("BothTwin", F("Wrap<T>", "Wrap<P3>"), "P2"),
        N("NamedBoth", F("Wrap<T>", "Wrap<P3>", name="w"), F("P2", name="p")),
        T("TupT", F("T", "P3"), "P2"), U("Nil")],
        gdecl="<'a, T: Copy, const N: usize>", guse="<'static, P3, 2>", where="where T: 'a")
    # exactly ONE non-ignored variant among ignored ones (unit / tuple / named kind of the enabled variant): the enabled set has
    # one element although the enum does not, so `v is Only` is still refutable.  The tuple form also carries a
    # `#[try_into(ignore)]` field BETWEEN two non-ignored fields of the SAME type: a matcher that binds the wrong position
    # still type-checks and shows up as a value-level counterexample.
    ALLD = ("is_variant", "unwrap", "try_unwrap", "try_into")
    S["sole_unit"] = Shape("sole_unit", [
        T("SkippedT", "P1", ignore=ALLD), U("Only"), U("SkippedU", ignore=ALLD),
        N("SkippedN", F("P2", name="a"), ignore=ALLD)])
    S["sole_tuple"] = Shape("sole_tuple", [
        U("SkippedU", ignore=ALLD), T("SkippedT", "P1", "P1", ignore=ALLD),
        T("Only", "P1", F("P1", ti_ignore=True), "P1"),
        N("SkippedN", F("P1", name="a"), F("P1", name="b"), ignore=ALLD)])
    S["sole_named"] = Shape("sole_named", [
        N("SkippedN", F("P1", name="x"), F("P1", name="z"), ignore=ALLD),
        N("Only", F("P1", name="x"), F("P1", name="y", ti_ignore=True), F("P1", name="z")),
        T("SkippedT", "P1", "P1", ignore=ALLD), U("SkippedU", ignore=ALLD)])
    # an ignored variant FIRST / in the MIDDLE, followed by >= 2 variants with the same payload type (used with `only=`: one program
    # per accessor, see Gen.only)
    S["ign_first"] = Shape("ign_first", [U("Zero", ignore=ALLD), T("One", "P1"), T("Two", "P1"), T("Three", "P1")])
    S["ign_mid"] = Shape("ign_mid", [T("One", "P1"), T("Mid", "P1", ignore=ALLD), T("Two", "P1"), T("Three", "P1")])
    # deny-list mode is decided by the FIRST attributed variant: a leading `ignore`, attribute-less variants, and a later variant
    # carrying an enabling attribute.  The attribute-less variants are non-ignored variants in the sense of the property statement
    # (and are enabled on the tree this was written against); all share one payload type, so that a variant dropped from the
    # TryFrom group is an `Err` for a value that must convert, not a missing impl.  No enum-level attribute.
    S["ign_then_mark"] = Shape("ign_then_mark", [
        T("Hidden", "P1", ignore=ALLD), T("Plain", "P1"),
        T("Shared", "P1", mark={"is_variant": "", "unwrap": "ref", "try_unwrap": "ref_mut", "try_into": "ref"}),
        T("PlainTwin", "P1")])
    # TryInto only: same-typed variants naming different kinds at the variant level, no enum-level attribute.  The first attributed
    # variant names reference kinds (see Gen.gen_try_into for what is and is not constrained).
    def K(sel):
        return {"try_into": sel}
    S["ti_varsel"] = Shape("ti_varsel", [
        T("ByRef", "P1", mark=K("ref, ref_mut")), T("Owned", "P1", mark=K("owned")), T("OwnedRef", "P1", mark=K("owned, ref")),
        T("Other", "P2", mark=K("owned, ref")), T("MutOnly", "P1", mark=K("ref_mut")), T("Pair", "P1", "P1", mark=K("ref")),
        T("PairAll", "P1", "P1", mark=K("owned, ref, ref_mut"))])
    S["ti_varsel2"] = Shape("ti_varsel2", [
        T("OwnedMut", "P2", mark=K("owned, ref_mut")), T("ByRef", "P2", mark=K("ref")), U("Nil", mark=K("owned")),
        N("NamedRef", F("P2", name="x"), mark=K("ref, ref_mut")), T("OwnedOnly", "P2", mark=K("owned"))])
    # every variant names `owned` explicitly, such a variant FIRST: an explicitly selected owned accessor / conversion exists whatever
    # the enum-wide default computed from the first attributed variant is.  (TryInto: a later reference-only variant stays unconstrained.)
    OWN = {"unwrap": "owned", "try_unwrap": "owned", "try_into": "owned"}
    S["owned_first"] = Shape("owned_first", [
        T("Circle", "P1", mark=OWN), T("Rect", "P1", "P2", mark=OWN), T("Square", "P1", mark=OWN), U("Dot", mark=OWN),
        T("ByRef", "P1", mark={"unwrap": "owned, ref", "try_unwrap": "owned, ref", "try_into": "ref"})])
    # the bound of the type parameter lives in the WHERE clause (not inline): every generated impl must repeat it
    S["generic_where"] = Shape("generic_where", [
        T("Wrapped", F("Wrap<T>", "Wrap<P3>")), T("Both", F("Wrap<T>", "Wrap<P3>"), "P2"), T("Ref", F("&'a P3", "&'static P3")),
        N("NamedBoth", F("Wrap<T>", "Wrap<P3>", name="w"), F("P2", name="p")), U("Nil")],
        gdecl="<'a, T, const N: usize>", guse="<'static, P3, 2>", where="where T: Copy + 'a")
    # thorough-only shapes
    S["single"] = Shape("single", [T("Value", "P1")])
    S["triples"] = Shape("triples", [
        T("Abc", "P1", "P2", "P3"), T("Acb", "P1", "P3", "P2"), T("Abc2", "P1", "P2", "P3"), T("Aaa", "P2", "P2", "P2"),
        T("Quad", "P1", "P2", "P3", "P4"), U("Z")])
    S["empties"] = Shape("empties", [
        U("Empty"), T("NeverMind"), T("NothingToSeeHere"), T("One", "P1"),
        T("AllIgnored", F("P1", ti_ignore=True)),
        N("EmptyNamed"), N("AllIgnoredNamed", F("P2", name="a", ti_ignore=True))])
    S["names2"] = Shape("names2", [
        T("HTTPSConnection", "P1"), T("Utf8", "P2"), U("X"), T("A1B2", "P1", "P2"), U("lower_case"), T("MixedCase_With_Underscore", "P3"),
        T("SCREAMING", "P2", "P2"), U("Z9")])
    S["lifetimes"] = Shape("lifetimes", [
        T("Left", F("&'a P1", "&'static P1")), T("Right", F("&'b P2", "&'static P2")),
        T("OwnBoth", F("&'a P1", "&'static P1"), F("&'b P2", "&'static P2")), U("Empty"),
        T("LeftAgain", F("&'a P1", "&'static P1"))],
        gdecl="<'a, 'b: 'a>", guse="<'static, 'static>")
    return S


# ------------------------------------------------------------------------------------------------
# Rust text helpers
# ------------------------------------------------------------------------------------------------
def ret_ty(types, ref=""):
    ts = [ref + t for t in types]
    return "()" if not ts else ts[0] if len(ts) == 1 else "(%s)" % ", ".join(ts)


def acc(x, i, n):
    return x if n == 1 else "%s.%d" % (x, i)


def conj(parts):
    return " && ".join(parts) or "true"


class Gen:
    """generates one program for (shape, derives, attribute selection)"""

    def __init__(self, key, shape, derives, forms, attr_args, with_contract=False, with_control=False, only=None):
        self.key, self.shape, self.derives, self.forms = key, shape, derives, forms
        # only: names of the variants whose accessors this program calls (None = every non-ignored variant).  A program that calls a
        # single accessor still builds when ANOTHER accessor is missing / misnamed, so that a right name carrying the wrong variant's
        # body is seen as a value-level counterexample and not only as a build failure of the whole module.
        self.only = only
        self.attr_args = attr_args          # {derive attr name: "ref, ref_mut"} enum-level attribute arguments
        self.with_contract, self.with_control = with_contract, with_control
        self.vs = shape.variants
        self.posts, self.proofs, self.hs = [], [], []

    # -- type definition -----------------------------------------------------------------------
    def enum_attr(self):
        return "".join("#[%s(%s)]\n" % (a, self.attr_args[a]) for a in self.derives if self.attr_args.get(a))

    def typedef(self):
        s = self.shape
        arms = []
        for i, v in enumerate(self.vs):
            arms.append("            %s => %s," % ("_" if i == len(self.vs) - 1 else str(i), v.any_expr()))
        return '''#[derive(%(ders)s, Clone, Copy, PartialEq, Debug)]
%(attr)spub enum En%(g)s %(where)s{
%(decl)s
}
pub type Ty = En%(gu)s;

/// hand-written: the variant is chosen by a symbolic u8, every payload field is symbolic
#[cfg(kani)]
impl kani::Arbitrary for Ty {
    fn any() -> Self {
        match kani::any::<u8>() {
%(arms)s
        }
    }
}
''' % dict(ders=", ".join(DERIVE_NAME[d] for d in self.derives), attr=self.enum_attr(), g=s.gdecl, gu=s.guse,
           where=(s.where + " ") if s.where else "", decl="\n".join(v.decl(self.derives) for v in self.vs),
           arms="\n".join(arms))

    def enabled(self, derive):
        return [v for v in self.vs if derive not in v.ignore and (self.only is None or derive == "try_into" or v.name in self.only)]

    # -- IsVariant -----------------------------------------------------------------------------
    def gen_is(self):
        body = ["        let v: Ty = kani::any();"]
        for v in self.enabled("is_variant"):
            self.posts.append("pub fn post_is_%s(v: &Ty, r: bool) -> bool { r == matches!(v, %s) }" % (v.snake, v.anypat()))
            body.append('        assert!(post_is_%s(&v, v.is_%s()), "post_is_%s");' % (v.snake, v.snake, v.snake))
        ncov = 0
        for v in self.vs:
            body.append('        kani::cover!(matches!(v, %s), "value is %s");' % (v.anypat(), v.name))
            ncov += 1
        self.add_proof("ob_is", body)
        self.hs.append(Harness("ob_is", "forall v: En, forall non-ignored variant X: v.is_<snake(X)>() == matches!(v, En::X ..)   [%s]"
                               % ", ".join("is_" + v.snake for v in self.enabled("is_variant")),
                               fn="generated En::is_* (impl/src/is_variant.rs)", cover_min=ncov))
        if self.with_control:
            v0 = self.enabled("is_variant")[0]
            self.add_proof("control_false_post", ["        let v: Ty = kani::any();",
                                                 '        assert!(post_is_%s(&v, !v.is_%s()), "deliberately false");' % (v0.snake, v0.snake)])
            self.hs.append(Harness("control_false_post", "deliberately false post-condition (negated is_x) must FAIL", kind="negative_control"))

    # -- Unwrap / TryUnwrap --------------------------------------------------------------------
    def field_posts(self, v):
        """posts shared by Unwrap and TryUnwrap for variant v (emitted once per program)"""
        n = len(v.fields)
        tys = [f.inst for f in v.fields]
        bs = ["f%d" % i for i in range(n)]
        gs = ["g%d" % i for i in range(n)]
        sn = v.snake
        out = []
        out.append("pub fn post_unwrap_%s(orig: &Ty, r: &%s) -> bool {\n    match orig { %s => %s, _ => false }\n}" % (
            sn, ret_ty(tys), v.pat(bs), conj("%s == *f%d" % (acc("r", i, n) if n > 1 else "*r", i) for i in range(n))))
        out.append("pub fn post_unwrap_%s_ref(v: &Ty, r: &%s) -> bool {\n    match v { %s => %s, _ => false }\n}" % (
            sn, ret_ty(tys, "&"), v.pat(bs), conj("ptr::eq(%s, f%d)" % (acc("r", i, n) if n > 1 else "*r", i) for i in range(n))))
        out.append("/// `p`: addresses of the returned `&mut`s, `n`: values written through them, `after`: the enum after the writes\n"
                   "pub fn post_unwrap_%s_mut(orig: &Ty, after: &Ty, p: &%s, n: &%s) -> bool {\n"
                   "    match (orig, after) { (%s, %s) => %s, _ => false }\n}" % (
                       sn, ret_ty(tys, "*const "), ret_ty(tys), v.anypat(), v.pat(gs),
                       conj("ptr::eq(%s, g%d) && *g%d == %s" % (acc("p", i, n) if n > 1 else "*p", i, i, acc("n", i, n) if n > 1 else "*n")
                            for i in range(n))))
        return out

    def mut_ok_block(self, v, r, ind):
        """statements: take addresses of the `&mut`s in `r`, write fresh symbolic values through them, assert the post"""
        n = len(v.fields)
        tys = [f.inst for f in v.fields]
        L = []
        news = ["n%d" % i for i in range(n)]
        for i, f in enumerate(v.fields):
            L.append("let n%d: %s = %s;" % (i, f.inst, f.anyx))
        if n == 0:
            L.append("let p = (); let _: () = %s;" % r)
        elif n == 1:
            L.append("let p = &*%s as *const %s;" % (r, tys[0]))
            L.append("*%s = n0;" % r)
        else:
            L.append("let p = (%s);" % ", ".join("&*%s.%d as *const %s" % (r, i, tys[i]) for i in range(n)))
            for i in range(n):
                L.append("*%s.%d = n%d;" % (r, i, i))
        newv = "()" if n == 0 else "n0" if n == 1 else "(%s)" % ", ".join(news)
        L.append('assert!(post_unwrap_%s_mut(&orig, &v, &p, &%s), "post_unwrap_%s_mut");' % (v.snake, newv, v.snake))
        return [ind + x for x in L]

    def gen_unwrap(self):
        en = self.enabled("unwrap")
        for v in en:
            self.posts += self.field_posts(v)
        names = {"owned": "", "ref": "_ref", "mut": "_mut"}
        for form in self.forms:
            sfx = names[form]
            body = ["        let mut v: Ty = kani::any();", "        let orig = v;"]
            for v in en:
                call = "v.unwrap_%s%s()" % (v.snake, sfx)
                body.append("        if matches!(v, %s) {" % v.anypat())
                if form == "owned":
                    body.append('            let r = %s;\n            assert!(post_unwrap_%s(&orig, &r), "post_unwrap_%s");' % (call, v.snake, v.snake))
                elif form == "ref":
                    body.append('            let r = %s;\n            assert!(post_unwrap_%s_ref(&v, &r), "post_unwrap_%s_ref");' % (call, v.snake, v.snake))
                else:
                    body.append("            let r = %s;" % call)
                    body += self.mut_ok_block(v, "r", "            ")
                body.append('            kani::cover!(true, "%s reached");\n        }' % v.name)
            hn = "ob_unwrap_" + form
            self.add_proof(hn, body)
            what = {"owned": "unwrap_x(v) == X's fields in declaration order",
                    "ref": "unwrap_x_ref(&v) returns references ptr::eq to the very fields of v, in order",
                    "mut": "unwrap_x_mut(&mut v) returns &mut ptr::eq to the very fields, and writes through them are visible in v's fields"}[form]
            self.hs.append(Harness(hn, "forall v: En, forall non-ignored X with v is X: %s   [%s]" % (
                what, ", ".join("unwrap_%s%s" % (v.snake, sfx) for v in en)),
                fn="generated En::unwrap_*%s (impl/src/unwrap.rs)" % sfx, cover_min=len(en)))
            # never returns on any other variant
            if len(self.vs) > 1:
                for v in en:
                    hn = "noret_unwrap_%s%s" % (v.snake, sfx)
                    self.add_proof(hn, ["        let mut v: Ty = kani::any();",
                                        "        kani::assume(!matches!(v, %s));" % v.anypat(),
                                        "        let _r = v.unwrap_%s%s();" % (v.snake, sfx),
                                        '        kani::cover!(true, "RETURNED");'], should_panic=True)
                    self.hs.append(Harness(hn, "forall v: En with v NOT %s: v.unwrap_%s%s() panics and does not return "
                                               "(should_panic harness SUCCESSFUL and the cover placed after the call unreachable)" % (v.name, v.snake, sfx),
                                           kind="no_return", fn="generated En::unwrap_%s%s (impl/src/unwrap.rs)" % (v.snake, sfx)))

    def gen_try_unwrap(self):
        en = self.enabled("try_unwrap")
        if "unwrap" not in self.derives:
            for v in en:
                self.posts += self.field_posts(v)
        multi = len(self.vs) > 1
        for v in en:
            n = len(v.fields)
            tys = [f.inst for f in v.fields]
            bs = ["f%d" % i for i in range(n)]
            sn = v.snake
            okpat = "Ok(())" if n == 0 else "Ok(x) if " + conj("%s == *f%d" % (acc("x", i, n) if n > 1 else "*x", i) for i in range(n))
            self.posts.append("pub fn post_try_unwrap_%s(orig: &Ty, r: &Result<%s, TryUnwrapError<Ty>>) -> bool {\n"
                              "    match orig { %s => matches!(r, %s), _ => matches!(r, Err(e) if e.input == *orig) }\n}" % (
                                  sn, ret_ty(tys), v.pat(bs), okpat))
            okpat = "Ok(())" if n == 0 else "Ok(x) if " + conj("ptr::eq(%s, f%d)" % (acc("x", i, n) if n > 1 else "*x", i) for i in range(n))
            self.posts.append("pub fn post_try_unwrap_%s_ref(v: &Ty, r: &Result<%s, TryUnwrapError<&Ty>>) -> bool {\n"
                              "    match v { %s => matches!(r, %s), _ => matches!(r, Err(e) if ptr::eq(e.input, v)) }\n}" % (
                                  sn, ret_ty(tys, "&"), v.pat(bs), okpat))
            self.posts.append("/// Err side of try_unwrap_%s_mut: `pe` = address held by `e.input`; the enum is unchanged\n"
                              "pub fn post_try_unwrap_%s_mut_err(orig: &Ty, after: &Ty, pe: *const Ty) -> bool {\n"
                              "    !matches!(orig, %s) && ptr::eq(pe, after) && *after == *orig\n}" % (sn, sn, v.anypat()))
        names = {"owned": "", "ref": "_ref", "mut": "_mut"}
        for form in self.forms:
            sfx = names[form]
            what = {"owned": "try_unwrap_%s(v) == Ok(%s's fields in order) if v is %s, else Err(e) with e.input == v (unchanged original)",
                    "ref": "try_unwrap_%s_ref(&v) == Ok(refs ptr::eq to %s's fields) if v is %s, else Err(e) with ptr::eq(e.input, &v)",
                    "mut": "try_unwrap_%s_mut(&mut v) == Ok(&mut ptr::eq to %s's fields, writes visible) if v is %s, else Err(e) with "
                           "ptr::eq(e.input, &v) and v unchanged"}[form]
            # one harness per (variant, form): keeps symbolic execution small and lets the 16 jobs run in parallel
            for v in en:
                sn = v.snake
                call = "v.try_unwrap_%s%s()" % (sn, sfx)
                body = ["        let mut v: Ty = kani::any();", "        let orig = v;"]
                if form in ("owned", "ref"):
                    body.append('        let r = %s;\n        assert!(post_try_unwrap_%s%s(&%s, &r), "post_try_unwrap_%s%s");' % (
                        call, sn, sfx, "orig" if form == "owned" else "v", sn, sfx))
                    body.append('        kani::cover!(r.is_ok(), "%s Ok");' % v.name)
                    if multi:
                        body.append('        kani::cover!(r.is_err(), "%s Err");' % v.name)
                else:
                    body.append("        match %s {" % call)
                    body.append("            Ok(r) => {")
                    body += self.mut_ok_block(v, "r", "                ")
                    body.append('                kani::cover!(true, "%s Ok");' % v.name)
                    body.append("            }")
                    body.append("            Err(e) => {")
                    body.append("                let pe = &*e.input as *const Ty;")
                    body.append('                assert!(post_try_unwrap_%s_mut_err(&orig, &v, pe), "post_try_unwrap_%s_mut_err");' % (sn, sn))
                    if multi:
                        body.append('                kani::cover!(true, "%s Err");' % v.name)
                    body.append("            }")
                    body.append("        }")
                hn = "ob_try_unwrap_%s%s" % (sn, sfx)
                self.add_proof(hn, body)
                self.hs.append(Harness(hn, "forall v: En. " + what % (sn, v.name, v.name),
                                       fn="generated En::try_unwrap_%s%s (impl/src/try_unwrap.rs), TryUnwrapError::new (src/try_unwrap.rs)" % (sn, sfx),
                                       cover_min=2 if multi else 1))
        if self.with_contract:
            v = [x for x in en if x.fields][0]
            tys = [f.inst for f in v.fields]
            self.posts.append("#[cfg_attr(kani, kani::ensures(|r| post_try_unwrap_%s(&v, r)))]\n"
                              "pub fn try_unwrap_%s_contract(v: Ty) -> Result<%s, TryUnwrapError<Ty>> { v.try_unwrap_%s() }" % (
                                  v.snake, v.snake, ret_ty(tys), v.snake))
            self.proofs.append("    #[kani::proof_for_contract(try_unwrap_%s_contract)]\n    fn ob_contract() { let _ = try_unwrap_%s_contract(kani::any()); }\n" % (
                v.snake, v.snake))
            self.hs.append(Harness("ob_contract", "#[kani::ensures(post_try_unwrap_%s)] on try_unwrap_%s_contract, proof_for_contract" % (v.snake, v.snake),
                                   kind="contract", fn="try_unwrap_%s_contract (thin wrapper of the generated try_unwrap_%s)" % (v.snake, v.snake)))

    # -- TryInto ---------------------------------------------------------------------------------
    def ti_groups(self):
        """target tuples, in order of first appearance: [(decl types, inst types, [(variant, kept field indexes)])]"""
        groups = []
        for v in self.enabled("try_into"):
            kept = [i for i, f in enumerate(v.fields) if not f.ti_ignore]
            k = tuple(" ".join(v.fields[i].decl.split()) for i in kept)
            for g in groups:
                if g[0] == k:
                    g[2].append((v, kept))
                    break
            else:
                groups.append((k, [v.fields[i].inst for i in kept], [(v, kept)]))
        return groups

    @staticmethod
    def ti_sel(v):
        """forms a variant-level `#[try_into(owned, ref, ref_mut)]` names, or None (no variant-level selection: the enum-level one)"""
        if "try_into" not in v.mark or not v.mark["try_into"]:
            return None
        return {{"owned": "owned", "ref": "ref", "ref_mut": "mut"}[x.strip()] for x in v.mark["try_into"].split(",")}

    def gen_try_into(self):
        groups = self.ti_groups()
        names = {"owned": "", "ref": "_ref", "mut": "_mut"}
        for k, (key, tys, all_members) in enumerate(groups):
            n = len(tys)
            title = "(%s)" % ", ".join(key)
            # Variant-level kind selection (shape ti_varsel): a variant takes part in the impls of the kinds it names.  For ref / ref_mut
            # that is all there is (nothing else switches them on without an enum-level attribute).  Whether a variant that names only
            # reference kinds ALSO converts by value is NOT settled (property: "exactly the variants whose field types equal the
            # target"; the macro: depends on which variant is attributed first): such (variant, owned) pairs are left unconstrained.
            mem = {f: [(v, kept) for v, kept in all_members if self.ti_sel(v) is None or f in self.ti_sel(v)] for f in ALL3}
            free_owned = [(v, kept) for v, kept in all_members if self.ti_sel(v) is not None and "owned" not in self.ti_sel(v)]
            members = mem["owned"]
            member_names = ", ".join(v.name for v, _ in members)

            def mpat(v, kept, pre):
                bs = ["_"] * len(v.fields)
                for j, i in enumerate(kept):
                    bs[i] = "%s%d" % (pre, j)
                return v.pat(bs)

            arms = []
            for v, kept in members:
                okpat = "Ok(())" if n == 0 else "Ok(x) if " + conj("%s == *f%d" % (acc("x", i, n) if n > 1 else "*x", i) for i in range(n))
                arms.append("        %s => matches!(r, %s)," % (mpat(v, kept, "f"), okpat))
            for v, kept in free_owned:
                arms.append("        %s => true,   // names only reference kinds: by-value conversion not settled, unconstrained" % v.anypat())
            self.posts.append("/// target %s: exactly %s convert\npub fn post_try_into_%d(orig: &Ty, r: &Result<%s, TryIntoError<Ty>>) -> bool {\n"
                              "    match orig {\n%s\n        _ => matches!(r, Err(e) if e.input == *orig),\n    }\n}" % (
                                  title, member_names, k, ret_ty(tys), "\n".join(arms)))
            arms = []
            for v, kept in mem["ref"]:
                okpat = "Ok(())" if n == 0 else "Ok(x) if " + conj("ptr::eq(%s, f%d)" % (acc("x", i, n) if n > 1 else "*x", i) for i in range(n))
                arms.append("        %s => matches!(r, %s)," % (mpat(v, kept, "f"), okpat))
            self.posts.append("pub fn post_try_into_%d_ref(v: &Ty, r: &Result<%s, TryIntoError<&Ty>>) -> bool {\n"
                              "    match v {\n%s\n        _ => matches!(r, Err(e) if ptr::eq(e.input, v)),\n    }\n}" % (
                                  k, ret_ty(tys, "&"), "\n".join(arms)))
            arms = []
            for v, kept in mem["mut"]:
                # ignored fields are bound on both sides (o<i> before, a<i> after): they must be unchanged
                ign = [i for i in range(len(v.fields)) if i not in kept]
                ob, ab = ["_"] * len(v.fields), ["_"] * len(v.fields)
                for j, i in enumerate(kept):
                    ab[i] = "g%d" % j
                for i in ign:
                    ob[i], ab[i] = "o%d" % i, "a%d" % i
                arms.append("        (%s, %s) => %s," % (v.pat(ob) if ign else v.anypat(), v.pat(ab), conj(
                    ["ptr::eq(%s, g%d) && *g%d == %s" % (acc("p", i, n) if n > 1 else "*p", i, i, acc("n", i, n) if n > 1 else "*n") for i in range(n)]
                    + ["*a%d == *o%d" % (i, i) for i in ign])))
            self.posts.append("pub fn post_try_into_%d_mut_ok(orig: &Ty, after: &Ty, p: &%s, n: &%s) -> bool {\n"
                              "    match (orig, after) {\n%s\n        _ => false,\n    }\n}" % (
                                  k, ret_ty(tys, "*const "), ret_ty(tys), "\n".join(arms)))
            notmember = conj("!matches!(orig, %s)" % v.anypat() for v, _ in mem["mut"])
            self.posts.append("pub fn post_try_into_%d_mut_err(orig: &Ty, after: &Ty, pe: *const Ty) -> bool {\n"
                              "    %s && ptr::eq(pe, after) && *after == *orig\n}" % (k, notmember))
            for form in self.forms:
                members = mem[form]
                if not members:
                    continue            # no variant with this field-type tuple names this kind: no such impl
                member_names = ", ".join(v.name for v, _ in members)
                has_err = len(members) + (len(free_owned) if form == "owned" else 0) < len(self.vs)
                sfx = names[form]
                ref = {"owned": "", "ref": "&", "mut": "&mut "}[form]
                call = "<%s as TryFrom<%sTy>>::try_from(%sv)" % (ret_ty(tys, ref), ref, ref)
                body = ["        let mut v: Ty = kani::any();", "        let orig = v;"]
                ncov = 0
                if form in ("owned", "ref"):
                    body.append("        let r = %s;" % call)
                    body.append('        assert!(post_try_into_%d%s(&%s, &r), "post_try_into_%d%s");' % (
                        k, sfx, "orig" if form == "owned" else "v", k, sfx))
                    for v, _ in members:
                        body.append('        kani::cover!(r.is_ok() && matches!(orig, %s), "Ok from %s");' % (v.anypat(), v.name))
                        ncov += 1
                    if has_err:
                        body.append('        kani::cover!(r.is_err(), "Err");')
                        ncov += 1
                else:
                    # fields of the anonymous target tuple: build the write-through block by hand
                    body.append("        match %s {" % call)
                    body.append("            Ok(r) => {")
                    anyx = None
                    v0, kept0 = members[0]
                    L = []
                    for j, i in enumerate(kept0):
                        L.append("let n%d: %s = %s;" % (j, tys[j], v0.fields[i].anyx))
                    if n == 0:
                        L.append("let p = (); let _: () = r;")
                    elif n == 1:
                        L.append("let p = &*r as *const %s;" % tys[0])
                        L.append("*r = n0;")
                    else:
                        L.append("let p = (%s);" % ", ".join("&*r.%d as *const %s" % (i, tys[i]) for i in range(n)))
                        for i in range(n):
                            L.append("*r.%d = n%d;" % (i, i))
                    newv = "()" if n == 0 else "n0" if n == 1 else "(%s)" % ", ".join("n%d" % i for i in range(n))
                    L.append('assert!(post_try_into_%d_mut_ok(&orig, &v, &p, &%s), "post_try_into_%d_mut_ok");' % (k, newv, k))
                    body += ["                " + x for x in L]
                    for v, _ in members:
                        body.append('                kani::cover!(matches!(orig, %s), "Ok from %s");' % (v.anypat(), v.name))
                        ncov += 1
                    body.append("            }")
                    body.append("            Err(e) => {")
                    body.append("                let pe = &*e.input as *const Ty;")
                    body.append('                assert!(post_try_into_%d_mut_err(&orig, &v, pe), "post_try_into_%d_mut_err");' % (k, k))
                    if has_err:
                        body.append('                kani::cover!(true, "Err");')
                        ncov += 1
                    body.append("            }")
                    body.append("        }")
                hn = "ob_try_into_%d_%s" % (k, form)
                self.add_proof(hn, body)
                what = {"owned": "Ok(the non-ignored fields in declaration order)", "ref": "Ok(references ptr::eq to those fields of v)",
                        "mut": "Ok(&mut ptr::eq to those fields, writes visible)"}[form]
                errw = {"owned": "Err(e) with e.input == v", "ref": "Err(e) with ptr::eq(e.input, &v)",
                        "mut": "Err(e) with ptr::eq(e.input, &v), v unchanged"}[form]
                self.hs.append(Harness(hn, "forall v: En. <%s as TryFrom<%sEn>>::try_from(%sv) == %s iff v is one of {%s} "
                                           "(the non-ignored variants whose non-ignored field types are %s), otherwise %s" % (
                                               ret_ty(list(key), ref), ref, ref, what, member_names, title, errw),
                                       fn="generated <%s as TryFrom<%sEn>>::try_from (impl/src/try_into.rs), TryIntoError::new (src/convert.rs)" % (
                                           ret_ty(list(key), ref), ref), cover_min=ncov))

    # -- assembly --------------------------------------------------------------------------------
    def add_proof(self, name, body, should_panic=False):
        self.proofs.append("    #[kani::proof]\n%s    fn %s() {\n%s\n    }\n" % (
            "    #[kani::should_panic]\n" if should_panic else "", name, "\n".join(body)))

    def program(self):
        if "is_variant" in self.derives:
            self.gen_is()
        if "unwrap" in self.derives:
            self.gen_unwrap()
        if "try_unwrap" in self.derives:
            self.gen_try_unwrap()
        if "try_into" in self.derives:
            self.gen_try_into()
        src = "#![allow(unreachable_patterns, clippy::all)]\nuse crate::common::*;\n\n" + self.typedef() + "\n" + "\n\n".join(self.posts) + \
              "\n\n#[cfg(kani)]\nmod proofs {\n    use super::*;\n" + "\n".join(self.proofs) + "\n    // PLAYBACK-INSERTION-POINT\n}\n"
        title = self.shape.title(self.derives, " ".join(self.enum_attr().split()))
        if self.only:
            title += "   [only the accessors of %s are called]" % ", ".join(self.only)
        return Program(self.key, title, src, self.hs)


ALL3 = ("owned", "ref", "mut")
SEL = {
    # selection key: (forms called, enum-level attribute arguments or None)
    "owned": (("owned",), None),                 # no attribute: owned accessors only
    "all": (ALL3, "ref, ref_mut"),               # #[unwrap(ref, ref_mut)]: owned + ref + ref_mut (doc of Unwrap/TryUnwrap)
    "ref": (("owned", "ref"), "ref"),            # #[unwrap(ref)]: owned + ref (doc example of unwrap.md)
    "mutonly": (("owned", "mut"), "ref_mut"),
}
SEL_TI = {
    "varsel": (ALL3, None),                            # no enum-level attribute: the variants name their kinds themselves
    "owned": (("owned",), None),                       # default is #[try_into(owned)]
    "all": (ALL3, "owned, ref, ref_mut"),
    "ref": (("ref",), "ref"),
    "mut": (("mut",), "ref_mut"),
    "ownedref": (("owned", "ref"), "owned, ref"),
}


def programs(tier):
    S = shapes()
    P = []
    first = {"contract": True, "control": True}

    def add(prefix, shape, derives, sel_key=None, only=None):
        if derives == ("is_variant",):
            key, forms, attr = "%s_%s" % (prefix, shape), (), {}
        elif derives == ("try_into",):
            forms, a = SEL_TI[sel_key]
            key, attr = "%s_%s_%s" % (prefix, shape, sel_key), {"try_into": a}
        elif len(derives) == 1:
            forms, a = SEL[sel_key]
            key, attr = "%s_%s_%s" % (prefix, shape, sel_key), {derives[0]: a}
        else:
            forms = ALL3
            key, attr = "%s_%s" % (prefix, shape), {"unwrap": "ref, ref_mut", "try_unwrap": "ref, ref_mut", "try_into": "owned, ref, ref_mut"}
        if only:
            key += "_only_" + "_".join(snake(o) for o in only)
        g = Gen(key, S[shape], derives, forms, attr, only=only)
        if "is_variant" in derives and first["control"]:
            g.with_control, first["control"] = True, False
        if "try_unwrap" in derives and first["contract"]:
            g.with_contract, first["contract"] = True, False
        P.append(g.program())

    core_shapes = ["maybe", "shared", "names", "generic", "ignored"]
    for s in core_shapes:
        add("isv", s, ("is_variant",))
    for s, sel in [("maybe", "all"), ("shared", "all"), ("names", "ref"), ("generic", "all"), ("ignored", "mutonly")]:
        add("unw", s, ("unwrap",), sel)
    for s, sel in [("maybe", "all"), ("shared", "all"), ("names", "owned"), ("generic", "all"), ("ignored", "ref")]:
        add("tun", s, ("try_unwrap",), sel)
    for s, sel in [("maybe", "all"), ("shared", "all"), ("names", "owned"), ("generic_ti", "all"), ("ignored", "all"), ("ignored", "ref")]:
        add("tin", s, ("try_into",), sel)
    add("all4", "ignored", ("is_variant", "unwrap", "try_unwrap", "try_into"))
    # exactly one enabled variant among ignored ones (enabled variant of unit / tuple / named kind)
    for s in ("sole_unit", "sole_tuple", "sole_named"):
        add("isv", s, ("is_variant",))
        add("tin", s, ("try_into",), "all")
    for s in ("sole_unit", "sole_tuple"):      # Unwrap / TryUnwrap have no named variants
        add("unw", s, ("unwrap",), "all")
        add("tun", s, ("try_unwrap",), "all")
    # every owned/ref/ref_mut selection on its own, for Unwrap and for TryUnwrap, is in the quick tier: none (unw_maybe_owned,
    # tun_names_owned), (ref) (unw_names_ref, tun_ignored_ref), (ref_mut) (unw_ignored_mutonly, tun_maybe_mutonly), (ref, ref_mut) (*_all).
    # A selected accessor that is not generated does not build: reported as `<key>/expansion`.
    add("unw", "maybe", ("unwrap",), "owned")
    add("tun", "maybe", ("try_unwrap",), "mutonly")
    # ignored variant first / in the middle before same-payload variants: one program per accessor (Ok side + never-returns side)
    for s in ("ign_first", "ign_mid"):
        for o in ("One", "Two", "Three"):
            add("unw", s, ("unwrap",), "ref", only=(o,))
            add("tun", s, ("try_unwrap",), "ref", only=(o,))
    # leading `ignore` + later enabling variant attribute: the attribute-less variants keep their accessors / stay in the TryFrom group.
    # Only the owned forms are called: what a variant-level `ref` / `ref_mut` selects is not settled by the property statement.
    add("isv", "ign_then_mark", ("is_variant",))
    add("unw", "ign_then_mark", ("unwrap",), "owned")
    add("tun", "ign_then_mark", ("try_unwrap",), "owned")
    add("tin", "ign_then_mark", ("try_into",), "owned")
    # variant-level kind selection of TryInto: every (variant, ref) and (variant, ref_mut) pair, (variant, owned) where it is settled
    add("tin", "ti_varsel", ("try_into",), "varsel")
    add("tin", "ti_varsel2", ("try_into",), "varsel")
    # variants whose fields are ALL `#[try_into(ignore)]`d (tuple and named) next to real unit / empty variants: the `()` target
    add("tin", "empties", ("try_into",), "all")
    # explicitly `owned` variants, such a variant first
    add("unw", "owned_first", ("unwrap",), "owned")
    add("tun", "owned_first", ("try_unwrap",), "owned")
    add("tin", "owned_first", ("try_into",), "varsel")
    # bounds in a where clause
    add("isv", "generic_where", ("is_variant",))
    add("unw", "generic_where", ("unwrap",), "ref")
    add("tun", "generic_where", ("try_unwrap",), "ref")
    add("tin", "generic_where", ("try_into",), "all")
    if tier == "thorough":
        extra = ["single", "triples", "empties", "names2", "lifetimes"]
        for s in extra + ["generic_ti"]:
            add("isv", s, ("is_variant",))
        for s in ("ign_first", "ign_mid"):
            for o in ("One", "Two", "Three"):
                for sel in ("owned", "all", "mutonly"):
                    add("unw", s, ("unwrap",), sel, only=(o,))
                    add("tun", s, ("try_unwrap",), sel, only=(o,))
        for s in core_shapes + extra + ["sole_unit", "sole_tuple", "ign_first", "ign_mid"]:
            for sel in ("owned", "all", "ref", "mutonly"):
                if ("unw_%s_%s" % (s, sel)) not in {p.key for p in P}:
                    add("unw", s, ("unwrap",), sel)
                if ("tun_%s_%s" % (s, sel)) not in {p.key for p in P}:
                    add("tun", s, ("try_unwrap",), sel)
        for s in ["maybe", "shared", "names", "ignored", "generic_ti"] + extra + ["sole_unit", "sole_tuple", "sole_named", "ign_first", "ign_mid"]:
            for sel in ("owned", "all", "ref", "mut", "ownedref"):
                if ("tin_%s_%s" % (s, sel)) not in {p.key for p in P}:
                    add("tin", s, ("try_into",), sel)
        for s in ["shared", "names", "generic_ti", "empties", "triples"]:
            add("all4", s, ("is_variant", "unwrap", "try_unwrap", "try_into"))
    return P


def family(tier, seed):
    progs = programs(tier)
    return Family(
        "C11", progs, common_src=COMMON,
        kani_flags=["-Z", "function-contracts"],
        level="proof",
        functions_under_contract=[
            "generated En::is_<x> for every non-ignored variant of every enum of the family (expanded by /repo/impl/src/is_variant.rs)",
            "generated En::unwrap_<x>, unwrap_<x>_ref, unwrap_<x>_mut (impl/src/unwrap.rs)",
            "generated En::try_unwrap_<x>, try_unwrap_<x>_ref, try_unwrap_<x>_mut (impl/src/try_unwrap.rs) and derive_more::TryUnwrapError::new (src/try_unwrap.rs)",
            "generated <(..) as TryFrom<En>>::try_from, <(&..) as TryFrom<&En>>, <(&mut ..) as TryFrom<&mut En>> (impl/src/try_into.rs, "
            "matcher of impl/src/utils.rs) and derive_more::TryIntoError::new (src/convert.rs)",
        ],
        trusted_base=[
            "rustc's pattern matching (`matches!`/`match` on the value) as the definition of 'v is X' and of 'X's fields in declaration order'",
            "std's #[derive(PartialEq, Clone, Copy)] on the generated enum and the probe payloads as the definition of 'unchanged original value'",
            "core::ptr::eq on non-zero-sized fields as the definition of 'the very same object'",
            "Kani's should_panic semantics (SUCCESSFUL iff >= 1 failed check and every failed check is a panic) and its cover "
            "reachability verdict: basis of the 'does not return' obligations",
        ],
        assumptions=[
            "generic enums are verified at one instantiation (<'static, P3, 2>); the generated code is parametric in the arguments",
            "snake_case rule used by the generator: split at `_`, lower->Upper, letter<->digit, and before the last capital of an upper-case "
            "run that is followed by a lower-case letter; lower-case the words; join with `_` (V2 -> v_2, XMLThing -> xml_thing)",
            "noret_* harnesses use kani::assume(!matches!(v, X ..)) to restrict the input to the wrong variants",
            "variant-level #[unwrap(ref)]/#[try_unwrap(ref)] selections are NOT in the family (see report: they do not generate the documented accessor); "
            "shape ign_then_mark carries such an attribute only as a marker and calls the owned forms only. Enums whose FIRST attributed variant "
            "is an enabling one (allow-list mode: attribute-less variants are then dropped by the macro) are not in the family",
            "variant-level TryInto kinds (ti_varsel*): 'the variants whose field types equal the target tuple' is read per kind as 'the "
            "non-ignored variants that take part in that kind'; (variant naming only ref kinds, owned) pairs are unconstrained",
        ],
        rule="one program per (enum shape x derive x owned/ref/ref_mut selection); per program one harness per accessor kind quantifying over "
             "every value of the enum and every non-ignored variant's accessor, one should_panic harness per (variant, unwrap form) for the "
             "wrong-variant inputs, one harness per (TryInto target tuple, reference form); distinct = harnesses discharged",
        harness_timeout=600,
    )
