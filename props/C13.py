"""C13 -- FromStr: newtypes delegate to the field, enums match variant names.

Contracts on the generated `from_str` (the real macro of /repo expands every type below):

(a) newtype `S(F)` / `S { f: F }`:
        post_from_str(s, r) := r == <F as FromStr>::from_str(s).map(S)
    i.e. Ok wraps exactly the field type's success value, Err carries the field type's error value unchanged, and the
    error *type* is `<F as FromStr>::Err` (enforced by the signature of the post-condition). `F` is a probe whose
    `from_str` is an uninterpreted-ish function of the `&str`'s (ptr, len) and of two symbolic statics (ACCEPT decides
    Ok/Err per length, SALT is copied into the payload). `s` is a symbolic sub-slice of a symbolic 16-byte ASCII buffer.
    Loop-free => complete over its inputs.

(b) field-less enum `T`:
        post_from_str(s, r) :=
            forall variant V:  r == Ok(V)  <=>  (if no other variant has the same lower-cased name
                                                     then lower(s) == lower(name(V)) else s == name(V))
            and  r is Err(e)  =>  e == derive_more::FromStrError::new("<name of the enum>")
    `name(V)` is the identifier WITHOUT `r#`. `lower` on the post-condition side is std's `eq_ignore_ascii_case`
    (ASCII names) or std's real `to_lowercase` (non-ASCII names) -- never the stub. `s` = ASCII string of symbolic
    content and symbolic length <= L (bounded). In this harness `str::to_lowercase` (called by the generated code) is
    stubbed by a fixed-capacity byte-wise ASCII model (real to_lowercase does not terminate under CBMC on symbolic input).

    Groups of 2, 3, 4 and 5 variants differing only in case, in several declaration orders (odd sizes catch a stale
    "seen once / seen twice" classification). For selected enums (quick) / every enum (thorough) `ob_error_text` renders the
    error with `write!` into a fixed 96-byte sink and requires the text to contain the enum's name between backquotes
    (enum names starting with lower-case `r` included) -- `==` on the error does not see its Display impl.

(a') `n_inherent_from_str_*`: the field probe `R` has, next to `impl FromStr for R`, an inherent `R::from_str` of the same signature
    that does the opposite; the reference is the trait impl (`<F as FromStr>::from_str`), so generated code that resolves to
    the inherent function is caught.

(c) every variant's own name parses back to that variant: one concrete-input harness per variant, REAL `to_lowercase`
    (no stub), plus one harness per variant that checks the post-condition on the all-upper / all-lower spelling of its name
    (also with the real `to_lowercase`).
"""
import random
import re

from vlib.core import Family, Program, Harness

CAP = 16          # capacity of the to_lowercase model == longest symbolic string any harness builds
UNWIND = 34       # real to_lowercase on concrete names (<= 26 bytes), memcmp on literals

STUB = "#[kani::stub(str::to_lowercase, ascii_lower_model)]"


def _model_body():
    lines = []
    for i in range(CAP):
        lines.append('    if %d < n { assert!(b[%d] < 0x80, "to_lowercase model: ASCII input only"); buf[%d] = b[%d].to_ascii_lowercase(); }' % (i, i, i, i))
    return "\n".join(lines)


COMMON = r'''
pub use derive_more::FromStr;      // the derive macro
pub use core::str::FromStr;        // the trait
pub use derive_more::FromStrError;
use core::sync::atomic::{AtomicU32, Ordering::Relaxed};

// ---------------------------------------------------------------------------------------------------------------
// Probe field types. `from_str` is a function of the (ptr, len) of the argument and of two statics that the harness
// sets to symbolic values once ("symbolic but fixed"): ACCEPT decides per length whether parsing succeeds, SALT is
// copied into the payload. Ok and Err payloads are different types and carry everything that identifies the call.
// ---------------------------------------------------------------------------------------------------------------
pub static ACCEPT: AtomicU32 = AtomicU32::new(0);
pub static SALT: AtomicU32 = AtomicU32::new(0);

macro_rules! probe {
    ($P:ident, $E:ident, $twist:expr) => {
        #[derive(Debug, Clone, Copy, PartialEq, Eq)]
        pub struct $P { pub ptr: *const u8, pub len: usize, pub salt: u32 }
        #[derive(Debug, Clone, Copy, PartialEq, Eq)]
        pub struct $E { pub ptr: *const u8, pub len: usize, pub salt: u32 }
        impl core::str::FromStr for $P {
            type Err = $E;
            fn from_str(s: &str) -> Result<$P, $E> {
                let (ptr, len) = (s.as_ptr(), s.len());
                let salt = SALT.load(Relaxed) ^ $twist;
                if (ACCEPT.load(Relaxed) >> ((len as u32) & 31)) & 1 == 1 { Ok($P { ptr, len, salt }) }
                else { Err($E { ptr, len, salt: !salt }) }
            }
        }
    };
}
probe!(P, PErr, 0);
probe!(Q, QErr, 0x5a5a_0000);
probe!(R, RErr, 0x00c3_3c00);
/// `R` also has an INHERENT associated function of the same name and signature as `FromStr::from_str` that does the
/// opposite (Ok <-> Err, other salt). "Parses exactly as its field type does" refers to the field type's `FromStr` impl:
/// generated code that names the function as `<R>::from_str` / `R::from_str` is resolved to this one instead.
impl R {
    pub fn from_str(s: &str) -> Result<R, RErr> {
        let (ptr, len) = (s.as_ptr(), s.len());
        let salt = SALT.load(Relaxed) ^ 0x7777_7777;
        if (ACCEPT.load(Relaxed) >> ((len as u32) & 31)) & 1 == 0 { Ok(R { ptr, len, salt }) }
        else { Err(RErr { ptr, len, salt: !salt }) }
    }
}

// ---------------------------------------------------------------------------------------------------------------
// Fixed-size byte sink for the rendered text of an error (no allocation, no format!).
// ---------------------------------------------------------------------------------------------------------------
pub struct Sink { pub buf: [u8; 96], pub len: usize, pub overflow: bool }
impl Sink { pub fn new() -> Sink { Sink { buf: [0u8; 96], len: 0, overflow: false } } }
impl core::fmt::Write for Sink {
    fn write_str(&mut self, s: &str) -> core::fmt::Result {
        let b = s.as_bytes();
        let mut i = 0;
        while i < b.len() {
            if self.len < 96 { self.buf[self.len] = b[i]; self.len += 1; } else { self.overflow = true; }
            i += 1;
        }
        Ok(())
    }
}
/// does `hay` contain `needle` as a contiguous run of bytes
pub fn contains_bytes(hay: &[u8], needle: &[u8]) -> bool {
    if needle.len() > hay.len() { return false; }
    let mut i = 0;
    while i + needle.len() <= hay.len() {
        let mut j = 0;
        let mut same = true;
        while j < needle.len() { if hay[i + j] != needle[j] { same = false; } j += 1; }
        if same { return true; }
        i += 1;
    }
    false
}
/// The text `Display` renders for `e` names `name`: it contains the name between backquotes.
pub fn rendered_text_names(e: &FromStrError, name: &str) -> bool {
    use core::fmt::Write as _;
    let mut out = Sink::new();
    if write!(out, "{}", e).is_err() || out.overflow { return false; }
    let mut quoted = Sink::new();
    let _ = quoted.write_str("`"); let _ = quoted.write_str(name); let _ = quoted.write_str("`");
    contains_bytes(&out.buf[..out.len], &quoted.buf[..quoted.len])
}

// ---------------------------------------------------------------------------------------------------------------
// Model of `str::to_lowercase` used ONLY as a #[kani::stub] in the bounded enum harnesses.
// Assumption (stated in the evidence): on ASCII input std's `to_lowercase` is byte-wise ASCII lower-casing.
// The model checks its own domain: a non-ASCII byte or a string longer than the capacity fails the harness.
// Fixed capacity, fully unrolled: no symbolic-size allocation, no loop.
// ---------------------------------------------------------------------------------------------------------------
pub const CAP: usize = %(cap)d;
pub fn ascii_lower_model(s: &str) -> String {
    let b = s.as_bytes();
    let n = b.len();
    assert!(n <= CAP, "to_lowercase model: capacity exceeded");
    let mut buf = [0u8; CAP];
%(model_body)s
    let mut v: Vec<u8> = Vec::with_capacity(CAP);
    v.extend_from_slice(&buf);
    unsafe { v.set_len(n); String::from_utf8_unchecked(v) }
}

#[cfg(kani)]
pub fn arm_probes() { ACCEPT.store(kani::any(), Relaxed); SALT.store(kani::any(), Relaxed); }
/// 16 symbolic 7-bit bytes (no loop, no from_utf8)
#[cfg(kani)]
pub fn any_ascii_16() -> [u8; 16] { let x: u128 = kani::any(); (x & 0x7f7f7f7f_7f7f7f7f_7f7f7f7f_7f7f7f7f).to_le_bytes() }
#[cfg(kani)]
pub fn any_ascii_8() -> [u8; 8] { let x: u64 = kani::any(); (x & 0x7f7f7f7f_7f7f7f7f).to_le_bytes() }
/// any sub-slice buf[a..b] as &str
#[cfg(kani)]
pub fn any_substr(buf: &[u8]) -> &str {
    let a: usize = kani::any(); let b: usize = kani::any();
    kani::assume(a <= b && b <= buf.len());
    unsafe { core::str::from_utf8_unchecked(&buf[a..b]) }
}
/// any prefix buf[..n] as &str
#[cfg(kani)]
pub fn any_prefix(buf: &[u8]) -> &str {
    let n: usize = kani::any();
    kani::assume(n <= buf.len());
    unsafe { core::str::from_utf8_unchecked(&buf[..n]) }
}
''' % dict(cap=CAP, model_body=_model_body())


# =====================================================================================================================
# (a) newtypes
# =====================================================================================================================
def newtypes(tier):
    N = []

    def add(key, title, decl, ty, field, f="P", ferr="PErr", bound=None, buf=None):
        N.append(dict(key=key, title=title, decl=decl, ty=ty, field=field, f=f, ferr=ferr, bound=bound, buf=buf))

    add("n_tuple", "struct S(P);", "pub struct S(pub P);", "S", "&t.0")
    add("n_named", "struct S { f: P }", "pub struct S { pub f: P }", "S", "&t.f")
    add("n_tuple_generic", "struct S<T>(T);  at S<P>", "pub struct S<T>(pub T);", "S<P>", "&t.0")
    add("n_named_generic", "struct S<T> { f: T }  at S<Q>  (error type QErr)", "pub struct S<T> { pub f: T }", "S<Q>", "&t.f", f="Q", ferr="QErr")
    add("n_generic_bounds_where", "struct S<T: Clone, const N: usize>(T) where T: core::fmt::Debug;  at S<P, 3>",
        "pub struct S<T: Clone, const N: usize>(pub T) where T: core::fmt::Debug;", "S<P, 3>", "&t.0")
    add("n_nested", "struct Inner(P); struct S(Inner);  (both derived)",
        "pub struct Inner(pub P);\n#[derive(FromStr)]\npub struct S(pub Inner);", "S", "&t.0.0")
    add("n_raw_field_name", "struct S { r#type: P }", "pub struct S { pub r#type: P }", "S", "&t.r#type")
    # concrete std field types: the field type's own from_str is the oracle; content matters => bounded
    # field type with an inherent `from_str` that disagrees with its FromStr impl: the trait impl is the reference
    add("n_inherent_from_str_tuple", "struct S(R);  where R has `impl FromStr for R` AND an inherent `R::from_str` that does the opposite",
        "pub struct S(pub R);", "S", "&t.0", f="R", ferr="RErr")
    add("n_inherent_from_str_named", "struct S { f: R }  where R has `impl FromStr for R` AND an inherent `R::from_str` that does the opposite",
        "pub struct S { pub f: R }", "S", "&t.f", f="R", ferr="RErr")
    add("n_bool", "struct S(bool);", "pub struct S(pub bool);", "S", "&t.0", f="bool", ferr="core::str::ParseBoolError",
        bound=6, buf="any_ascii_8")
    if tier == "thorough":
        add("n_named_generic_p", "struct S<T> { f: T }  at S<P>", "pub struct S<T> { pub f: T }", "S<P>", "&t.f")
        add("n_tuple_generic_q", "struct S<T>(T);  at S<Q>", "pub struct S<T>(pub T);", "S<Q>", "&t.0", f="Q", ferr="QErr")
        add("n_nested_generic", "struct Inner<T>(T); struct S<U> { g: Inner<U> }  at S<Q>",
            "pub struct Inner<T>(pub T);\n#[derive(FromStr)]\npub struct S<U> { pub g: Inner<U> }", "S<Q>", "&t.g.0", f="Q", ferr="QErr")
        add("n_u8", "struct S { n: u8 }", "pub struct S { pub n: u8 }", "S", "&t.n", f="u8", ferr="core::num::ParseIntError",
            bound=4, buf="any_ascii_8")
        add("n_char", "struct S(char);", "pub struct S(pub char);", "S", "&t.0", f="char", ferr="core::char::ParseCharError",
            bound=3, buf="any_ascii_8")
    return N


def newtype_program(n, with_contract, with_control):
    probe = n["bound"] is None
    if probe:
        mk = "arm_probes(); let buf = any_ascii_16(); let s = any_substr(&buf);"
    else:
        mk = "let buf = %s(); let s = any_prefix(&buf); kani::assume(s.len() <= %d);" % (n["buf"], n["bound"])
    src = r'''
use crate::common::*;

#[derive(FromStr)]
%(decl)s
pub type Ty = %(ty)s;
/// the field type and ITS error type; `post_from_str` only type-checks if `<Ty as FromStr>::Err` is exactly `FErr`
pub type F = %(f)s;
pub type FErr = %(ferr)s;
pub fn field(t: &Ty) -> &F { %(field)s }

/// Post-condition of `<Ty as FromStr>::from_str(s)`, from the property statement:
/// `r == F::from_str(s).map(Ty)` -- success value wrapped, the field type's error returned unchanged.
pub fn post_from_str(s: &str, r: &Result<Ty, FErr>) -> bool {
    match (<F as FromStr>::from_str(s), r) {
        (Ok(v), Ok(t)) => *field(t) == v,
        (Err(e), Err(e2)) => e == *e2,
        _ => false,
    }
}

#[cfg_attr(kani, kani::ensures(|r| post_from_str(s, r)))]
pub fn from_str_contract(s: &str) -> Result<Ty, FErr> { <Ty as FromStr>::from_str(s) }

#[cfg(kani)]
mod proofs {
    use super::*;
    #[kani::proof]
    fn ob_from_str() {
        %(mk)s
        let r = <Ty as FromStr>::from_str(s);
        // `lane` keeps reachability witnesses (lane) and counterexamples of the obligation (!lane) on different inputs: Kani merges
        // playback tests with identical inputs and labels the merged test as a cover, which would lose the counterexample.
        let lane: bool = kani::any();
        kani::cover!(lane && r.is_ok(), "Ok reachable");
        kani::cover!(lane && r.is_err(), "Err reachable");
        assert!(lane || post_from_str(s, &r), "post_from_str");
    }
%(contract)s%(control)s
    // PLAYBACK-INSERTION-POINT
}
''' % dict(decl=n["decl"], ty=n["ty"], f=n["f"], ferr=n["ferr"], field=n["field"], mk=mk,
           contract=('''    #[kani::proof_for_contract(from_str_contract)]
    fn ob_contract() { %s let r = from_str_contract(s); assert!(post_from_str(s, &r), "post_from_str (restated so that a native replay, which does not evaluate `ensures`, can fail)"); }
''' % mk if with_contract else ""),
           control=('''    #[kani::proof]
    fn control_false_post() { %s assert!(<Ty as FromStr>::from_str(s).is_ok()); }
''' % mk if with_control else ""))
    fn = "<%s as FromStr>::from_str (generated)" % n["ty"]
    bounded = None if probe else "ASCII strings of length <= %d (field type %s parses the content)" % (n["bound"], n["f"])
    hs = [Harness("ob_from_str", "forall s (sub-slice of a symbolic 16-byte buffer), forall probe behaviour: "
                  "from_str(s) == F::from_str(s).map(S); error value and error type unchanged" if probe else
                  "forall ASCII s, |s| <= %d: from_str(s) == %s::from_str(s).map(S)" % (n["bound"], n["f"]),
                  fn=fn, cover_min=2, bounded=bounded)]
    if with_contract:
        hs.append(Harness("ob_contract", "#[kani::ensures(post_from_str)] on from_str_contract, proof_for_contract", kind="contract",
                          fn="from_str_contract (thin wrapper of the generated from_str)", bounded=bounded))
    if with_control:
        hs.append(Harness("control_false_post", "deliberately false post-condition (always Ok) must FAIL", kind="negative_control"))
    return Program(n["key"], n["title"], src, hs)


# =====================================================================================================================
# (b) + (c) field-less enums
# =====================================================================================================================
def unraw(ident):
    return ident[2:] if ident.startswith("r#") else ident


def parse_variant(decl):
    """'r#fn' | 'A()' | 'B {}' | 'A = 1'  ->  (ident, expr/pattern suffix)"""
    m = re.match(r"^((?:r#)?\w+)\s*(.*)$", decl, re.U)
    ident, rest = m.group(1), m.group(2)
    suffix = "()" if rest.startswith("()") else (" {}" if rest.startswith("{") else "")
    return ident, suffix


def enums(tier, seed):
    E = []

    def add(key, title_vars, L=8, attrs=(), name="En", symbolic=True, text=None):
        # text: also check the rendered (Display) text of the error; quick: selected programs, thorough: every program
        E.append(dict(key=key, variants=title_vars, L=L, attrs=list(attrs), name=name, symbolic=symbolic,
                      text=(tier == "thorough") if text is None else text))

    # the program of the reproduced defect: the name of `r#fn` is `fn`
    add("e_raw_fn_foo", ["r#fn", "Foo"])
    # raw identifier inside a group that differs only in case: names `type` / `Type` collide
    add("e_raw_type_collide", ["r#type", "Type", "Foo"])
    # DESIGN's case-collision enum, the repo's own test enum
    add("e_collide_foo_bar_ba", ["Foo", "Bar", "Ba", "BAR"])
    add("e_repo_test_enum", ["Foo", "Bar", "Baz", "BaZ"], name="EnumNoFields", text=True)
    add("e_group_of_four", ["ab", "Ab", "aB", "AB", "C"])
    # odd-sized groups (a stale "seen once / seen twice" toggle re-classifies the 3rd, 5th member as unique), in several
    # declaration orders: all-lower-case member last / first / in the middle, members interleaved with other variants
    add("e_group_of_three_lower_last", ["Abc", "ABC", "abc", "Other"])
    add("e_group_of_three_lower_first", ["abc", "Other", "Abc", "ABC"])
    add("e_group_of_five", ["aBc", "abc", "Z", "ABC", "Abc", "abC"])
    # enum names that begin with lower-case `r` (the rendered error text must still name them)
    add("e_name_rgb", ["Red", "Green"], name="rgb", text=True)
    add("e_name_rrule", ["Daily", "Weekly"], name="rrule", text=True)
    add("e_name_r", ["A"], name="r", text=True)
    add("e_prefixes_unique", ["A", "Ab", "Abc", "Abcd"])
    add("e_ok_err_none", ["Ok", "Err", "None", "Some"], name="EnumWithErr")
    add("e_single", ["Only"])
    add("e_digits_underscores", ["A1", "a_1", "A_1", "_x", "X__"])
    # field-less per the Rust Reference: `Tuple()`, `Struct{}`, `Unit`; from_str.rs admits them (`fields.is_empty()`)
    add("e_unit_like_variants", ["A()", "B {}", "C"])
    # non-ASCII names: only concrete inputs, real to_lowercase on both sides (the only place where "lower-case" is not ASCII:
    # catches generated code that lower-cases differently from the macro, e.g. to_ascii_lowercase)
    add("e_unicode", ["Ärger", "Foo", "Ünique", "ÜNIQUE"], symbolic=False)
    if tier == "thorough":
        add("e_two_odd_groups", ["Xy", "Abc", "xY", "ABC", "XY", "abc", "xy", "AbC", "aBC"])
        add("e_raw_keywords", ["r#fn", "r#type", "r#match", "r#move", "r#async", "Plain"], L=16)
        add("e_raw_case_group", ["r#match", "Match", "MATCH", "r#loop"], L=16)
        add("e_discriminants", ["A = 1", "Bb = 5", "bB"], attrs=["#[repr(u8)]"])
        add("e_empty", [])
        add("e_many", ["Alpha", "Beta", "Gamma", "Delta", "Epsilon", "Zeta", "Eta", "Theta", "ETA", "zeta", "Iota", "Kappa"], L=16)
        add("e_long_names", ["ALongerName14c", "alongername14c", "Short"], L=16)
        # longer than any symbolic string: concrete inputs only
        add("e_very_long_names", ["ALongVariantNameOf26Chars", "alongvariantnameof26chars", "AnotherVariantNameOf26Char"], symbolic=False)
        add("e_collide_L16", ["Foo", "Bar", "Ba", "BAR"], L=16)
        add("e_same_letters", ["Aa", "aA", "AA", "aa", "A", "a"], L=16)
        # random tail: case patterns over a small pool of words (no raw identifiers: those are covered systematically above)
        rnd = random.Random(1000 + seed)
        pool = ["a", "ab", "abc", "foo", "bar", "ba", "x1", "a_b", "zz", "baz", "q"]
        for i in range(12):
            words = rnd.sample(pool, rnd.randint(1, 4))
            vs = []
            for w in words:
                pats = set()
                for _ in range(rnd.randint(1, 5)):
                    pats.add("".join(c.upper() if rnd.random() < 0.5 else c for c in w))
                vs += sorted(pats)
            vs = [v for v in vs if v != "_"]
            rnd.shuffle(vs)
            add("e_rand_%02d" % i, vs, L=8)
    return E


def enum_program(e, with_control):
    key, name, L = e["key"], e["name"], e["L"]
    vs = [parse_variant(d) for d in e["variants"]]
    idents = [v[0] for v in vs]
    names = [unraw(i) for i in idents]
    assert len(set(idents)) == len(idents), (key, idents)
    ascii_only = all(n.isascii() for n in names)
    assert ascii_only or not e["symbolic"]
    groups = {}
    for n in names:
        groups.setdefault(n.lower(), []).append(n)

    def lit(s):
        return '"%s"' % s

    def pat(i):
        return "Ty::%s%s" % (idents[i], vs[i][1])

    rule = []
    for i, n in enumerate(names):
        if len(groups[n.lower()]) == 1:
            if ascii_only:
                cond = "s.eq_ignore_ascii_case(%s)" % lit(n)
                how = "no other variant has this lower-cased name: equal ignoring case (std eq_ignore_ascii_case)"
            else:
                cond = "s.to_lowercase() == %s.to_lowercase()" % lit(n)
                how = "no other variant has this lower-cased name: equal ignoring case (std to_lowercase on both sides)"
        else:
            cond = "s == %s" % lit(n)
            how = "lower-cased name shared with %s: exact" % ", ".join(x for x in groups[n.lower()] if x != n)
        rule.append("        && (matches!(r, Ok(%s)) == (%s)) // %s" % (pat(i), cond, how))
    decl = "\n".join("    %s," % d for d in e["variants"])
    title = "enum %s { %s }" % (name, ", ".join(e["variants"]))
    buf = "any_ascii_8" if L <= 8 else "any_ascii_16"
    covers = "\n".join('        kani::cover!(lane && matches!(r, Ok(%s)), "Ok(%s) reachable");' % (pat(i), idents[i]) for i in range(len(vs)))
    hs = []
    body = ""
    fn = "<%s as FromStr>::from_str (generated), derive_more::FromStrError::new" % name
    # the stubbed harness has no std loop left except memcmp on literals of equal length
    uw_sym = max([len(n) for n in names] + [len(name), 4]) + 4
    if e["symbolic"]:
        bounded = "ASCII strings (all 128 byte values per position) of length <= %d; str::to_lowercase stubbed by the byte-wise ASCII model" % L
        body += r'''
    /// (b) bounded: every ASCII string of length <= %(L)d
    #[kani::proof]
    #[kani::unwind(%(uw)d)]
    %(stub)s
    fn ob_from_str() {
        let buf = %(buf)s();
        let s = any_prefix(&buf);
        let r = <Ty as FromStr>::from_str(s);
        let lane: bool = kani::any(); // reachability witnesses on lane, the obligation on !lane (see n_tuple.rs)
%(covers)s
        kani::cover!(lane && r.is_err(), "Err reachable");
        assert!(lane || post_from_str(s, &r), "post_from_str");
    }
''' % dict(L=L, stub=STUB, buf=buf, covers=covers, uw=uw_sym)
        hs.append(Harness("ob_from_str", "forall ASCII s, |s| <= %d: forall V: from_str(s) == Ok(V) <=> rule(V, s); Err => FromStrError naming %s" % (L, name),
                          fn=fn, bounded=bounded, cover_min=len(vs) + 1, stubs=["str::to_lowercase -> ascii_lower_model"]))
        if with_control:
            body += r'''
    #[kani::proof]
    #[kani::unwind(%(uw)d)]
    %(stub)s
    fn control_false_post() {
        let buf = %(buf)s();
        let s = any_prefix(&buf);
        assert!(<Ty as FromStr>::from_str(s).is_err());
    }
''' % dict(stub=STUB, buf=buf, uw=uw_sym)
            hs.append(Harness("control_false_post", "deliberately false post-condition (always Err) must FAIL", kind="negative_control"))
    # (c) each variant's own name, real to_lowercase
    def uw(*strs):
        # real to_lowercase / memcmp loops run over the bytes of the concrete string; unwinding assertions are on
        return max([len(x.encode("utf8")) for x in strs] + [len(name), 4]) + 8   # `name`: memcmp in FromStrError == 

    for i, n in enumerate(names):
        hn = "ob_name_%d_%s" % (i, re.sub(r"\W", "_", n, flags=re.A))
        body += r"""
    /// (c) the name of `%(ident)s` is %(lit)s
    #[kani::proof]
    #[kani::unwind(%(uw)d)]
    fn %(hn)s() {
        let r = <Ty as FromStr>::from_str(%(lit)s);
        assert!(matches!(r, Ok(%(pat)s)), "own name parses back to the variant");
    }
""" % dict(ident=idents[i], lit=lit(n), hn=hn, pat=pat(i), uw=uw(n))
        hs.append(Harness(hn, "%s.parse::<%s>() == Ok(%s)   (real str::to_lowercase, concrete input)" % (lit(n), name, idents[i]), fn=fn))
    # all-upper / all-lower spelling of every name, checked against the post-condition with the REAL to_lowercase
    seen = set(names)
    for i, n in enumerate(names):
        spell = []
        for sp in (n.upper(), n.lower()):
            if sp not in seen:
                seen.add(sp)
                spell.append(sp)
        if not spell:
            continue
        hn = "ob_case_%d_%s" % (i, re.sub(r"\W", "_", n, flags=re.A))
        checks = "\n".join('        { let s = %s; let r = <Ty as FromStr>::from_str(s); assert!(post_from_str(s, &r), "post_from_str on a re-cased name"); }' % lit(sp)
                           for sp in spell)
        body += r"""
    /// upper-/lower-cased spelling of `%(ident)s`: post-condition with the real to_lowercase
    #[kani::proof]
    #[kani::unwind(%(uw)d)]
    fn %(hn)s() {
%(checks)s
    }
""" % dict(ident=idents[i], hn=hn, checks=checks, uw=uw(*(spell + names)))
        hs.append(Harness(hn, "post_from_str(s, from_str(s)) for s in {%s} (re-cased name of %s; real str::to_lowercase, concrete input)"
                          % (", ".join(lit(x) for x in spell), idents[i]), fn=fn))
    if not names:
        body += r"""
    #[kani::proof]
    #[kani::unwind(12)]
    fn ob_case_none() {
        { let s = ""; let r = <Ty as FromStr>::from_str(s); assert!(post_from_str(s, &r), "post_from_str"); }
        { let s = "x"; let r = <Ty as FromStr>::from_str(s); assert!(post_from_str(s, &r), "post_from_str"); }
    }
"""
        hs.append(Harness("ob_case_none", "an enum without variants rejects \"\" and \"x\" naming the enum (real str::to_lowercase)", fn=fn))
    if e["text"]:
        # "Invalid `" + name + "` string representation": write_str pieces and the byte search run over <= 32 + |name| bytes
        body += r"""
    /// the rendered text of the rejection names the enum (between backquotes); `?` cannot occur in a variant name
    #[kani::proof]
    #[kani::unwind(%(uw)d)]
    fn ob_error_text() {
        let r = <Ty as FromStr>::from_str("?");
        assert!(matches!(&r, Err(e) if rendered_text_names(e, %(ename)s)), "Display of the error names the enum (input \"?\")");
    }
""" % dict(uw=32 + len(unraw(name)) + 8, ename=lit(unraw(name)))
        hs.append(Harness("ob_error_text", "\"?\".parse::<%s>() is Err(e) and e's Display text contains `%s` in backquotes "
                          "(written through a fixed 96-byte sink; real str::to_lowercase)" % (name, unraw(name)),
                          fn=fn + ", <FromStrError as Display>::fmt (src/str.rs)"))
    src = r'''
use crate::common::*;

#[derive(FromStr, Debug, Clone, Copy, PartialEq, Eq)]
%(attrs)s
pub enum %(name)s {
%(decl)s
}
pub type Ty = %(name)s;

/// Post-condition of `<%(name)s as FromStr>::from_str(s)`, from the property statement. The name of a variant is its
/// identifier without `r#`; which names share a lower-cased form is a fact about the type definition.
pub fn post_from_str(s: &str, r: &Result<Ty, FromStrError>) -> bool {
    true
%(rule)s
        && match r { Ok(_) => true, Err(e) => *e == FromStrError::new(%(ename)s) } // the error names the enum
}

#[cfg(kani)]
mod proofs {
    use super::*;
%(body)s
    // PLAYBACK-INSERTION-POINT
}
''' % dict(attrs="\n".join(e["attrs"]), name=name, decl=decl, rule="\n".join(rule), ename=lit(unraw(name)), body=body)
    return Program(key, title, src, hs)


def family(tier, seed):
    ns = newtypes(tier)
    es = enums(tier, seed)
    progs = [newtype_program(n, with_contract=(i == 0), with_control=(i == 0)) for i, n in enumerate(ns)]
    first_sym = [i for i, e in enumerate(es) if e["symbolic"] and e["key"] == "e_collide_foo_bar_ba"][0]
    progs += [enum_program(e, with_control=(i == first_sym)) for i, e in enumerate(es)]
    return Family(
        "C13", progs, common_src=COMMON,
        kani_flags=["-Z", "function-contracts", "-Z", "stubbing"], unwind=UNWIND,
        level="proof",
        functions_under_contract=[
            "generated <S as FromStr>::from_str for each single-field struct of the family (impl/src/from_str.rs struct_from)",
            "generated <En as FromStr>::from_str for each field-less enum of the family (impl/src/from_str.rs enum_from)",
            "derive_more::FromStrError::new + its PartialEq (src/str.rs)",
            "<derive_more::FromStrError as Display>::fmt (src/str.rs): the rendered text contains the enum's name between backquotes"],
        trusted_base=[
            "bounded enum harnesses only: #[kani::stub(str::to_lowercase, ascii_lower_model)] -- a fixed-capacity byte-wise ASCII model "
            "replaces std's to_lowercase in the generated code (the post-condition does not use it)",
            "std's str::eq_ignore_ascii_case / str::to_lowercase as the definition of 'equal ignoring case' in the post-condition"],
        assumptions=[
            "on ASCII input std's str::to_lowercase is byte-wise ASCII lower-casing (the model asserts its input is ASCII and fits its capacity; "
            "the per-variant and spelling harnesses run the REAL to_lowercase on concrete strings and tie the model to it at those points)",
            "enum strings: 7-bit bytes only, length <= 8 (quick) / <= 16 (selected thorough programs); non-ASCII input strings are exercised only as "
            "concrete spellings of non-ASCII variant names (e_unicode)",
            "concrete-input harnesses contain loops of std (to_lowercase, memcmp) unwound with unwinding assertions on",
            "newtype probes: the field type's from_str depends on the str only through (ptr, len); content-dependent field types (bool, u8, char) are bounded harnesses"],
        rule="one program per type definition (newtype shapes x generics x probe/std field types; enums: unique names, case-collision groups, "
             "raw identifiers, unit-like variants, random case patterns); per program: 1 symbolic from_str obligation + 1 obligation per variant name "
             "+ 1 obligation per variant on its re-cased spellings; distinct = harnesses discharged",
        bounded_note="every enum obligation over symbolic strings is bounded (ASCII, length <= L) and never counted as proved; newtype obligations over probe "
                     "field types are loop-free and complete over (buffer, sub-slice, probe behaviour)",
        harness_timeout=900,
    )
