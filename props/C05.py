"""C05 -- the caller's formatting flags pass through exactly for bare-placeholder formats.

Contract on the generated `fmt` (the real macros of /repo expand every type below), for EVERY formatter state `o`
(fill any scalar, 4 alignments, 3 signs, `#`, `0`, width / precision any Option<u16>, debug-hex) and every field value:

    post_fmt(v, o, out) := if transparent(P) { out == bytes(<Tr>::fmt(&ARG, formatter with the SAME options o)) }
                           else              { out == bytes(<T as Derived>::fmt(v, formatter with DEFAULT options)) }

`transparent(P)`, `Tr` and `ARG` are computed in vlib/fmtprobe.transparent() from the property sentence (never from
impl/src/fmt/mod.rs::transparent_call): a Display-like derive on a single-field type without attribute, or the literal is
exactly one placeholder without fill/alignment/sign/`#`/`0`/width/precision and not `x?`/`X?` that refers to its only
argument (implicitly, by index 0, or by its name) or to a field by name. ARG is the argument expression with every field
bound by reference under its documented name (`_0`, `x`, `self`), or the field itself when it is named inside the literal.
Fields are `Probe`s: each fmt trait of a probe writes a fixed-width record of the trait letter, the (symbolic) tag and the
complete observable state of the Formatter it was handed, so "formatted under trait Tr with exactly the caller's flags" is
byte equality, and "the caller's flags leave the output unchanged" is equality with the run under default options.

"A placeholder whose index does not denote an existing argument is a compile error rather than a delegation" is a type-level
obligation: the `rej_*` programs (Program.expect_compile=False) must be rejected by rustc; compiling is the violation. Before
/repo fc08e35 `#[display("{1}", _0)] struct S(i32);` compiled and delegated to argument 0 (`format!("{:>5}|", S(7))` printed `    7|`).

Excluded on purpose: `Pointer` with a bare field as the *argument* (`#[display("{:p}", _0)]`): formatted directly, `_0` is a
reference to the field and `{:p}` prints the field's address through std's integer formatting, whose padding loops run up to
the (symbolic) width. That program is carried by C02 (default options) instead (it exposed a defect there, fixed in /repo f6717fb).
Also outside: `#[display("{K}")]` with a constant K in scope delegates to K (tests/display.rs asserts it); K is neither an argument
nor a field, the property sentence does not cover it.
"""
import itertools
import random
import zlib

from vlib.core import Family
from vlib.fmtprobe import (Program, Harness, PH, Lit, Arg, Attr, Field, Variant, TypeDef, COMMON, CRATE_ATTRS, DISPLAY_LIKE, TRAITS, TY,
                           SHORT, REC, transparent, ref_direct, reference_method, harness_text, module_text)

# ----------------------------------------------------------------------------------------------------
# components of the family (label, constructor)
# ----------------------------------------------------------------------------------------------------
# each single modifier added to an otherwise bare placeholder (12 kinds); extra args a modifier needs come second
MODIFIERS = [
    ("fillalign", dict(fill="*", align="<"), []),
    ("align", dict(align=">"), []),
    ("plus", dict(sign="+"), []),
    ("minus", dict(sign="-"), []),
    ("alt", dict(alt=True), []),
    ("zero", dict(zero=True), []),
    ("width", dict(width=8), []),
    ("widtharg", dict(width=("arg", "w")), [Arg("5", "w")]),
    ("prec", dict(prec=3), []),
    ("precstar", dict(prec="*"), "STAR"),
    ("lowerdbg", dict(ty="x?"), []),
    ("upperdbg", dict(ty="X?"), []),
]

# how the single placeholder refers to what it prints: (label, placeholder arg, args, shape)
#   shape: "t1" = struct T(Probe), "n1" = struct T { name: Probe }
REFS = [
    ("imp_pos", None, ["_0"], "t1"),                 # `{}`, _0
    ("idx0_pos", 0, ["_0"], "t1"),                   # `{0}`, _0
    ("fieldname_t", "_0", [], "t1"),                 # `{_0}`
    ("fieldname_n", "name", [], "n1"),               # `{name}`
    ("alias", "a", [Arg("_0", "a")], "t1"),          # `{a}`, a = _0
    ("imp_alias", None, [Arg("_0", "a")], "t1"),     # `{}`, a = _0   (its only argument, by position)
    ("imp_deref", None, ["*_0"], "t1"),              # `{}`, *_0
    ("imp_self0", None, ["self.0"], "t1"),           # `{}`, self.0
    ("imp_clone", None, ["_0.clone()"], "t1"),       # `{}`, _0.clone()
    ("alias_twin", "a", [Arg("name.twin()", "a")], "n1"),   # `{a}`, a = name.twin()
    ("imp_selfname", None, ["self.name"], "n1"),
]


class RawAliasArg(Arg):
    """a named argument whose NAME is spelled as a raw identifier: `r#type = expr`; the placeholder refers to it as `{type}`
    (`alias` holds the un-raw name, which is the name std matches it by)"""

    def text(self):
        return "r#%s = %s" % (self.alias, self.expr)


class SpelledAttr(Attr):
    """the same attribute with its literal WRITTEN differently: a raw string (`r"{_0}"`, `r#"{:x}"#`) or with the opening brace of the
    placeholder escaped (backslash-u{7b} / backslash-x7b for `{`). The literal's VALUE -- what std::fmt sees -- is unchanged."""

    def __init__(self, lit, args=(), spelling="raw"):
        Attr.__init__(self, lit, args)
        self.spelling = spelling

    def inner(self):
        t = self.lit.text()
        tok = {"raw": 'r"%s"' % t, "rawhash": 'r#"%s"#' % t, "rawhash2": 'r##"%s"##' % t,
               "u7b": '"%s"' % t.replace("{", "\\u{7b}", 1), "x7b": '"%s"' % t.replace("{", "\\x7b", 1),
               "x7d": '"%s"' % (t[:-1] + "\\x7d")}[self.spelling]
        return ", ".join([tok] + [a.text() for a in self.args])


def shape(kind, vname=None):
    if kind == "t1":
        return Variant(vname, [None])
    if kind == "n1":
        return Variant(vname, ["name"])
    if kind == "t2":
        return Variant(vname, [None, None])
    if kind == "n2":
        return Variant(vname, ["a", "b"])
    if kind == "unit":
        return Variant(vname, [])
    if kind.startswith("raw:"):          # named fields written as raw identifiers: "raw:type" = { r#type: Probe }, "raw:in,b" = two fields
        return Variant(vname, [Field(n if n in ("a", "b") else "r#" + n) for n in kind[4:].split(",")])
    raise KeyError(kind)


class Case:
    """one program: a type, the variant under test, and a label"""

    def __init__(self, key, derive, kind, attr, enum=False, note="", shared=None):
        self.key, self.derive, self.kind, self.attr, self.enum, self.note = key, derive, kind, attr, enum, note
        self.shared = shared       # enum-level attribute (without `_variant`): only a default for variants without their own
        self.items = []            # further Rust items of the module (helper methods used by argument expressions)


def ph_with(arg, ty, mod=None):
    kw = dict(arg=arg, ty=ty)
    if mod:
        kw.update(mod)
        if "ty" in mod:
            kw["ty"] = mod["ty"]
    return PH(**kw)


def is_ptr_bare_field_arg(ty, args):
    """`{:p}` with a bare field as argument expression: excluded (see module docstring)"""
    return ty == "p" and any(a.expr.strip() in ("_0", "_1", "name", "a", "b") for a in [x if isinstance(x, Arg) else Arg(x) for x in args])


def cases(tier, seed):
    out, seen = [], set()

    def add(key, derive, kind, attr, enum=False, note="", shared=None, items=()):
        if key in seen:
            return
        seen.add(key)
        out.append(Case(key, derive, kind, attr, enum or shared is not None, note, shared))
        out[-1].items = list(items)

    rot = itertools.cycle(DISPLAY_LIKE)        # the derived trait rotates through the 8 Display-like derives

    # A. bare placeholder naming the field, in each of the 9 traits                                   (transparent)
    for t in TRAITS:
        add("bare_%s_fieldname" % SHORT[t], next(rot), "t1", Attr([PH("_0", ty=TY[t])]))
    # B. every way of referring to the only argument / a field, two traits                             (transparent)
    for i, (lab, parg, args, kind) in enumerate(REFS):
        for t in ("LowerHex", "Display") if tier == "quick" else TRAITS:
            if (tier == "quick" and t == "Display" and i % 2) or is_ptr_bare_field_arg(TY[t], args):
                continue
            add("bare_%s_%s" % (SHORT[t], lab), next(rot), kind, Attr([PH(parg, ty=TY[t])], args))
    # Pointer with an argument EXPRESSION: `&(expr)` must be formatted, not a reference to it (a `&&(expr)` delegation prints an address)
    add("bare_ptr_imp_deref", "Display", "t1", Attr([PH(None, ty="p")], ["*_0"]))
    add("bare_ptr_alias_selfname", "Pointer", "n1", Attr([PH("q", ty="p")], [Arg("self.name", "q")]))
    # whitespace before `}` (accepted by std and by the derive's parser)                              (transparent)
    add("bare_ws_idx0", "Display", "t1", Attr([PH(0, ws=" ")], ["_0"]))
    add("bare_ws_lhex_fieldname", "Display", "t1", Attr([PH("_0", ty="x", ws=" ")]))
    add("bare_ws_imp", "Octal", "t1", Attr([PH(None, ws=" ")], ["_0"]))
    # an argument that is itself a format_args!: the documented way to suppress transparency -- by the property it IS the only
    # argument, formatted directly (fmt::Arguments ignores the flags)                               (transparent to the expression)
    add("bare_disp_formatargs", "Display", "t1", Attr([PH(None)], ['format_args!("{_0:o}")']))
    add("bare_disp_const", "Display", "unit", Attr([PH(None, ty="e")], ["K7"]))
    add("bare_idx0_const_expr", "Binary", "unit", Attr([PH(0)], ["K7.twin()"]))
    # several fields, one bare placeholder naming one of them (permutation visible)                    (transparent)
    add("bare_lhex_field1_of_t2", "Display", "t2", Attr([PH("_1", ty="x")]))
    add("bare_disp_fieldb_of_n2", "UpperHex", "n2", Attr([PH("b")]))
    add("bare_oct_selfdot1_of_t2", "Display", "t2", Attr([PH(None, ty="o")], ["self.1"]))
    # C. each single modifier                                                                           (inert)
    for lab, mod, extra in MODIFIERS:
        for rlab, parg, args, kind in ([REFS[2], REFS[0]] if tier == "quick" else REFS[:6]):
            if extra == "STAR":
                if parg is not None:
                    continue
                a = ["3"] + args
            else:
                a = args + extra
            if tier == "quick" and rlab == "imp_pos" and lab not in ("width", "precstar", "fillalign", "lowerdbg"):
                continue
            for t in (("LowerHex",) if tier == "quick" else ("LowerHex", "Display", "Debug")):
                if "ty" in mod and t != "LowerHex":
                    continue
                add("mod_%s_%s_%s" % (lab, SHORT[t], rlab), next(rot), kind, Attr([ph_with(parg, TY[t], mod)], a))
    # D. surrounding text, escapes, several placeholders                                               (inert)
    ctx = [("textbefore", lambda p: ["a", p]), ("textafter", lambda p: [p, "b"]), ("escbefore", lambda p: ["{", p]),
           ("escafter", lambda p: [p, "}"]), ("twice", lambda p: [p, PH(0 if p.arg is None else p.arg, ty=p.ty)]), ("space", lambda p: [" ", p])]
    for lab, mk in ctx:
        for rlab, parg, args, kind in ([REFS[2]] if tier == "quick" else [REFS[2], REFS[1], REFS[4]]):
            for t in (("LowerHex",) if tier == "quick" else ("LowerHex", "Display", "Pointer")):
                add("ctx_%s_%s_%s" % (lab, SHORT[t], rlab), next(rot), kind, Attr(mk(PH(parg, ty=TY[t])), args))
    # the literal starts AND ends with a brace, but only because of escapes: not a lone placeholder                 (inert; seed C03_r2_2)
    add("ctx_esc_both_sides_imp", "Display", "t1", Attr(["{", PH(None), "}"], ["_0"]))
    add("ctx_esc_both_sides_lhex_fieldname", "Octal", "t1", Attr(["{", PH("_0", ty="x"), "}"]))
    add("ctx_esc_pair_after", "Display", "t1", Attr([PH("_0"), "{}"]))
    add("ctx_esc_pair_before_idx0", "LowerHex", "t1", Attr(["{}", PH(0, ty="x")], ["_0"]))
    add("ctx_esc_text_before_named", "Display", "n1", Attr(["{name}=", PH("name")]))
    add("variant_ctx_esc_both_sides", "Display", "t1", Attr(["{", PH(None), "}"], ["*_0"]), enum=True)
    add("debug_ctx_esc_both_sides", "Debug", "t1", Attr(["{", PH("_0", ty="?"), "}"]))
    add("debug_variant_ctx_esc_pair_after", "Debug", "n1", Attr([PH("name"), "{}"]), enum=True)
    add("ctx_two_implicit", "Display", "t2", Attr([PH(None), PH(None)], ["_0", "_1"]))
    add("ctx_textonly", "Display", "t1", Attr(["plain"]))
    add("ctx_empty", "Display", "t1", Attr([]))
    # E. no attribute, single field: each Display-like derive                                          (transparent)
    for i, t in enumerate(DISPLAY_LIKE):
        add("noattr_%s_%s" % (SHORT[t], "t1" if i % 2 == 0 else "n1"), t, "t1" if i % 2 == 0 else "n1", None)
        if tier == "thorough":
            add("noattr_%s_%s" % (SHORT[t], "n1" if i % 2 == 0 else "t1"), t, "n1" if i % 2 == 0 else "t1", None)
    # F. Debug with a struct- / variant-level attribute
    add("debug_bare_dbg_fieldname", "Debug", "t1", Attr([PH("_0", ty="?")]))
    add("debug_bare_disp_fieldname", "Debug", "n1", Attr([PH("name")]))
    add("debug_bare_lhex_imp_pos", "Debug", "t1", Attr([PH(None, ty="x")], ["_0"]))
    add("debug_mod_width", "Debug", "t1", Attr([PH("_0", ty="?", width=8)]))
    add("debug_mod_lowerdbg", "Debug", "t1", Attr([PH("_0", ty="x?")]))
    add("debug_ctx_textbefore", "Debug", "t1", Attr(["a", PH("_0")]))
    add("debug_variant_bare_oct", "Debug", "t1", Attr([PH("_0", ty="o")]), enum=True)
    add("debug_variant_mod_alt", "Debug", "n1", Attr([PH("name", ty="?", alt=True)]), enum=True)
    # G. enum variants
    add("variant_bare_lhex_fieldname", "Display", "t1", Attr([PH("_0", ty="x")]), enum=True)
    add("variant_bare_bin_fieldname_n", "Display", "n1", Attr([PH("name", ty="b")]), enum=True)
    add("variant_bare_imp_deref", "LowerExp", "t1", Attr([PH(None)], ["*_0"]), enum=True)
    add("variant_mod_width", "Display", "t1", Attr([PH("_0", width=4)]), enum=True)
    add("variant_ctx_textafter", "Octal", "t1", Attr([PH("_0"), "!"]), enum=True)
    add("variant_noattr_disp_t1", "Display", "t1", None, enum=True)
    add("variant_noattr_uhex_n1", "UpperHex", "n1", None, enum=True)
    # H. enum with a top-level format that does NOT mention `_variant` (only a default): a variant's own attribute is "the attribute" of
    #    that variant (seed C05_r2_2: own bare placeholders stopped delegating); a variant without attribute takes the top-level one
    add("shared_dflt_text_own_bare_fieldname", "Display", "t1", Attr([PH("_0")]), shared=Attr(["shared text"]))
    add("shared_dflt_field_own_bare_lhex", "Display", "t1", Attr([PH("_0", ty="x")]), shared=Attr([PH("_0")]))
    add("shared_dflt_fieldtext_own_bare_imp_deref", "Display", "t1", Attr([PH(None)], ["*_0"]), shared=Attr(["sh ", PH("_0")]))
    add("shared_dflt_text_own_bare_alias_lexp", "UpperHex", "n1", Attr([PH("q", ty="e")], [Arg("name.twin()", "q")]), shared=Attr(["shared"]))
    add("shared_dflt_text_own_bare_oct_lhexderive", "LowerHex", "t1", Attr([PH(0, ty="o")], ["_0"]), shared=Attr(["s", PH("_0", ty="x")]))
    add("shared_dflt_text_own_mod_width", "Display", "t1", Attr([PH("_0", width=4)]), shared=Attr(["shared text"]))        # inert
    add("shared_dflt_text_own_ctx_text", "Display", "t1", Attr(["v ", PH("_0")]), shared=Attr([PH("_0")]))               # inert
    add("shared_dflt_bare_lhex_noattr_variant", "Display", "t1", None, shared=Attr([PH("_0", ty="x")]))                    # transparent via the default
    add("shared_dflt_bare_named_noattr_variant", "Binary", "n1", None, shared=Attr([PH("name", ty="b")]))
    add("shared_dflt_fieldtext_noattr_variant", "Display", "t1", None, shared=Attr(["sh ", PH("_0")]))                     # inert
    add("shared_dflt_mod_noattr_variant", "Display", "t1", None, shared=Attr([PH("_0", sign="+")]))                        # inert
    # I. fields declared with RAW KEYWORD identifiers, named in a bare placeholder by their un-raw name: a field by name, transparent
    #    (seed C05_r3_1: keywords fell back to write!)
    add("rawkw_type_disp", "Display", "raw:type", Attr([PH("type")]))
    add("rawkw_match_lhex", "Display", "raw:match", Attr([PH("match", ty="x")]))
    add("rawkw_in_lexp_second_field", "Binary", "raw:a,in", Attr([PH("in", ty="e")]))
    add("rawkw_fn_oct_variant", "Octal", "raw:fn", Attr([PH("fn", ty="o")]), enum=True)
    add("rawkw_struct_dbg_debug", "Debug", "raw:struct", Attr([PH("struct", ty="?")]))
    add("rawkw_loop_uhex_debug_variant", "Debug", "raw:loop,b", Attr([PH("loop", ty="X")]), enum=True)
    add("rawkw_type_ws", "UpperExp", "raw:type", Attr([PH("type", ws=" ")]))
    add("rawkw_type_mod_width", "Display", "raw:type", Attr([PH("type", width=3)]))                                       # inert
    add("rawkw_type_shared_default_noattr_variant", "Display", "raw:type", None, shared=Attr([PH("type", ty="b")]))
    # J. FIELDLESS shapes: one bare placeholder referring to its only argument is transparent whatever the shape (seed C05_r3_2: a
    #    unit variant under an enum-level format lost the flags)
    TAG = ["impl T {\n    /// a probe-valued method for argument expressions\n    pub fn tag(&self) -> Probe { match self { T::V => K7, _ => K7.twin() } }\n}\n"]
    add("unit_variant_shared_bare_method_arg", "Display", "unit", None, shared=Attr([PH(None)], ["self.tag()"]), items=TAG)
    add("unit_variant_shared_bare_alias_const", "Display", "unit", None, shared=Attr([PH("code", ty="x")], [Arg("K7.twin()", "code")]))
    add("unit_variant_shared_bare_idx0_lexp", "Display", "unit", None, shared=Attr([PH(0, ty="e")], ["self.tag()"]), items=TAG)
    add("unit_variant_shared_mod_alt", "Display", "unit", None, shared=Attr([PH(None, alt=True)], ["K7"]))                 # inert
    add("unit_variant_shared_text", "Display", "unit", None, shared=Attr(["<", PH(None), ">"], ["K7"]))                   # inert
    add("unit_variant_own_bare_const", "Display", "unit", Attr([PH(None, ty="o")], ["K7"]), enum=True)
    add("unit_variant_own_bare_under_shared", "UpperHex", "unit", Attr([PH("q")], [Arg("K7", "q")]), shared=Attr(["shared"]))
    # K. derive(Debug) with a bare Pointer placeholder naming a field (seed C05_r3_3: went through write! because of the deref argument)
    add("debug_bare_ptr_fieldname", "Debug", "t1", Attr([PH("_0", ty="p")]))
    add("debug_bare_ptr_fieldname_n", "Debug", "n1", Attr([PH("name", ty="p")]))
    add("debug_bare_ptr_field1_of_t2", "Debug", "t2", Attr([PH("_1", ty="p")]))
    add("debug_variant_bare_ptr_fieldname", "Debug", "t1", Attr([PH("_0", ty="p")]), enum=True)
    add("debug_variant_bare_ptr_fieldb_of_n2", "Debug", "n2", Attr([PH("b", ty="p")]), enum=True)
    add("debug_bare_ptr_rawkw", "Debug", "raw:type", Attr([PH("type", ty="p")]))
    add("debug_mod_ptr_width", "Debug", "t1", Attr([PH("_0", ty="p", width=4)]))                                            # inert
    # L. the NAMED ARGUMENT is spelled as a raw identifier, the placeholder uses the un-raw name: its only argument, by its name
    #    (defect fixed in /repo d5ce99d: the alias was compared as `r#type` == "type" and the attribute fell back to write!)
    add("rawalias_type_disp", "Display", "t1", Attr([PH("type")], [RawAliasArg("_0", "type")]))
    add("rawalias_match_lhex_deref", "Display", "t1", Attr([PH("match", ty="x")], [RawAliasArg("*_0", "match")]))
    add("rawalias_fn_oct_variant", "Octal", "n1", Attr([PH("fn", ty="o")], [RawAliasArg("name.twin()", "fn")]), enum=True)
    add("rawalias_in_dbg_debug", "Debug", "t1", Attr([PH("in", ty="?")], [RawAliasArg("_0", "in")]))
    add("rawalias_loop_uexp_debug_variant", "Debug", "n1", Attr([PH("loop", ty="E")], [RawAliasArg("*name", "loop")]), enum=True)
    add("rawalias_type_mod_alt", "Display", "t1", Attr([PH("type", alt=True)], [RawAliasArg("_0", "type")]))               # inert
    # M. the literal WRITTEN as a raw string / with an escaped brace: its value is one bare placeholder (seed C05_r4_3: the token text was parsed)
    add("spelled_raw_fieldname", "Display", "t1", SpelledAttr([PH("_0")], spelling="raw"))
    add("spelled_rawhash_lhex_imp_pos", "Display", "t1", SpelledAttr([PH(None, ty="x")], ["_0"], spelling="rawhash"))
    add("spelled_rawhash2_named", "Binary", "n1", SpelledAttr([PH("name", ty="b")], spelling="rawhash2"))
    add("spelled_u7b_dbg_fieldname", "Display", "n1", SpelledAttr([PH("name", ty="?")], spelling="u7b"))
    add("spelled_x7b_oct_alias", "Octal", "t1", SpelledAttr([PH("a", ty="o")], [Arg("*_0", "a")], spelling="x7b"))
    add("spelled_x7d_close", "Display", "t1", SpelledAttr([PH("_0", ty="e")], spelling="x7d"))
    add("spelled_raw_variant", "LowerHex", "t1", SpelledAttr([PH("_0", ty="x")], spelling="raw"), enum=True)
    add("spelled_rawhash_debug", "Debug", "t1", SpelledAttr([PH("_0", ty="?")], spelling="rawhash"))
    add("spelled_u7b_debug_variant", "Debug", "n1", SpelledAttr([PH("name")], spelling="u7b"), enum=True)
    add("spelled_raw_mod_width", "Display", "t1", SpelledAttr([PH("_0", width=5)], spelling="raw"))                         # inert
    add("spelled_rawhash_ctx_text", "Display", "t1", SpelledAttr(["a", PH("_0")], spelling="rawhash"))                      # inert
    # N. `#` on a DISPLAY-typed lone placeholder is a modifier like any other (seed C02 r5_2: it was delegated)                    (inert)
    add("mod_alt_disp_fieldname", "Display", "t1", Attr([PH("_0", alt=True)]))
    add("mod_alt_disp_imp_pos", "Display", "t1", Attr([PH(None, alt=True)], ["_0"]))
    add("mod_alt_disp_named", "Display", "n1", Attr([PH("name", alt=True)]))
    add("variant_mod_alt_disp", "Display", "t1", Attr([PH("_0", alt=True)]), enum=True)
    add("debug_mod_alt_disp", "Debug", "t1", Attr([PH("_0", alt=True)]))
    if tier == "thorough":
        # the wider product: every trait x every reference form x (no modifier | each modifier), context none;
        # a seeded sample of trait x reference x context x modifier beyond that
        for t in TRAITS:
            for rlab, parg, args, kind in REFS:
                if is_ptr_bare_field_arg(TY[t], args):
                    continue
                for lab, mod, extra in MODIFIERS:
                    if "ty" in mod and t != "LowerHex":
                        continue
                    if extra == "STAR":
                        if parg is not None:
                            continue
                        a = ["3"] + args
                    else:
                        a = args + extra
                    if (zlib.crc32((t + rlab + lab).encode()) + seed) % 3:
                        continue
                    add("mod_%s_%s_%s" % (lab, SHORT[t], rlab), next(rot), kind, Attr([ph_with(parg, TY[t], mod)], a))
        rng = random.Random(seed)
        for _ in range(60):
            t = rng.choice(TRAITS)
            rlab, parg, args, kind = rng.choice(REFS[:6])
            clab, mk = rng.choice(ctx)
            lab, mod, extra = rng.choice(MODIFIERS[:7] + MODIFIERS[8:9])
            add("rnd_%s_%s_%s_%s" % (clab, lab, SHORT[t], rlab), next(rot), kind, Attr(mk(ph_with(parg, TY[t], mod)), args))
    return out


# ----------------------------------------------------------------------------------------------------
# programs
# ----------------------------------------------------------------------------------------------------
def build(case, with_contract=False, with_control=False):
    v = shape(case.kind, "V" if case.enum else None)
    v.attr = case.attr
    if case.enum:
        other = Variant("Other", [None], attr=Attr(["other ", PH("_0")]) if case.derive != "Debug" else None)
        td = TypeDef(case.derive, [other, v], is_enum=True, shared=case.shared)
    else:
        td = TypeDef(case.derive, v)
    # the attribute that governs the variant: its own one, else the enum-level default (never one that mentions `_variant` here)
    eff = case.attr or case.shared
    assert case.shared is None or "_variant" not in case.shared.lit.names()
    tr = transparent(td, v, eff)
    items = list(case.items)
    if tr:
        trait, expr = tr
        items.append(reference_method(td, {v.name: ref_direct(trait, expr)},
                                      doc="the argument formatted directly under the placeholder's trait (`%s`, fmt::%s)" % (expr, trait)))
        post = "agree(out, &run(o, |f| v.reference(f)))"
        what = "TRANSPARENT: out == <%s>::fmt(&(%s), same options)" % (trait, expr)
    else:
        post = "agree(out, &run(FormattingOptions::new(), |f| <T as fmt::%s>::fmt(v, f)))" % td.derive
        what = "INERT: out == the derived fmt under default options"
    items.append("/// Post-condition of `<T as fmt::%s>::fmt(v, formatter(o))`, from the property statement. %s\n"
                 "pub fn post_fmt(v: &T, o: FormattingOptions, out: &(Sink, bool)) -> bool {\n    %s\n}\n" % (td.derive, what, post))
    # covers: non-default options reach the call and output is produced
    minlen = (eff.lit.text_len() if eff else 0) + (REC if tr else 0)
    covers = [("o.get_width().is_some() && o.get_fill() != ' ' && o.get_alternate() && out.1 && !out.0.overflow && out.0.len >= %d" % minlen,
               "non-default options, output produced"),
              ("o == FormattingOptions::new()", "default options")]
    proofs = [harness_text("ob_fmt", td, v, True, "post_fmt(&v, o, &out)", covers)]
    fn = "<T as fmt::%s>::fmt (expansion of #[derive(derive_more::%s)])" % (td.derive, td.derive)
    hs = [Harness("ob_fmt", "forall formatter options o, field values. post_fmt(v, o, out); " + what, fn=fn, cover_min=2)]
    if tr and tr[0] == "Pointer" and case.attr and case.attr.args:
        # Pointer with an argument expression: if the derive formatted a REFERENCE to the expression, std's pointer formatting would run
        # under symbolic flags (padding loops x fill encoding: no verdict within the time / memory limit, measured). The same obligation
        # at the concrete default options decides such a deviation in seconds; ob_fmt stays unrestricted.
        proofs.append(harness_text("ob_fmt_default_opts", td, v, False, "post_fmt(&v, o, &out)",
                                   [("out.1 && out.0.len >= %d" % minlen, "output produced")]))
        hs.append(Harness("ob_fmt_default_opts", "default formatter options, forall field values. post_fmt(v, o, out); " + what, fn=fn, cover_min=1,
                          bounded="formatter options fixed to the default (a sub-case of ob_fmt)"))
    if with_contract:
        items.append("#[cfg_attr(kani, kani::ensures(|r| post_fmt(v, o, r)))]\n"
                     "pub fn fmt_contract(v: &T, o: FormattingOptions) -> (Sink, bool) { run(o, |f| <T as fmt::%s>::fmt(v, f)) }\n" % td.derive)
        proofs.append("    #[kani::proof_for_contract(fmt_contract)]\n    fn ob_contract() { let v = %s; fmt_contract(&v, any_options()); }\n" % td.ctor(v))
        hs.append(Harness("ob_contract", "#[kani::ensures(post_fmt)] on fmt_contract, proof_for_contract", kind="contract",
                          fn="fmt_contract (thin wrapper of the generated fmt)"))
    if with_control:
        # the opposite expectation: a transparent program is claimed inert / an inert one is claimed transparent to field 0
        if tr:
            wrong = "agree(&out, &run(FormattingOptions::new(), |f| <T as fmt::%s>::fmt(&v, f)))" % td.derive
        else:
            wrong = "agree(&out, &run(o, |f| fmt::Display::fmt(&v.0, f)))"
        proofs.append(harness_text("control_false_post", td, v, True, wrong, [], doc="deliberately false post-condition", assert_text="deliberately false"))
        hs.append(Harness("control_false_post", "the opposite expectation (%s) must FAIL" % ("inert" if tr else "transparent"), kind="negative_control"))
    return Program(case.key, td.title(), module_text(td, items, proofs), hs, meta=dict(transparent=bool(tr)))


def rejections():
    """'a placeholder whose index does not denote an existing argument is a compile error rather than a delegation':
    type-level obligations discharged by rustc (Program.expect_compile=False: compiling is the violation). Each module is only
    the type definition; the out-of-range index is the only thing wrong with it."""
    R = []

    def rej(key, derive, kind, attr, enum=False):
        v = shape(kind, "V" if enum else None)
        v.attr = attr
        td = TypeDef(derive, [Variant("Other", [None], attr=Attr(["o"])), v], is_enum=True) if enum else TypeDef(derive, v)
        R.append(Program("rej_" + key, td.title(), "\nuse crate::common::*;\n\n" + td.decl() + "\n", [], expect_compile=False))

    rej("idx1_one_arg", "Display", "t1", Attr([PH(1)], ["_0"]))                       # silently delegated to argument 0 before fc08e35
    rej("idx1_lhex_one_arg_named", "LowerHex", "n1", Attr([PH(1, ty="x")], ["name"]))
    rej("idx1_one_aliased_arg", "Display", "t1", Attr([PH(1)], [Arg("_0", "a")]))
    rej("idx7_one_expr_arg", "Octal", "t1", Attr([PH(7, ty="o")], ["_0.twin()"]))
    rej("idx1_debug_attr", "Debug", "t1", Attr([PH(1, ty="?")], ["_0"]))
    rej("idx1_variant", "Display", "t1", Attr([PH(1)], ["_0"]), enum=True)
    rej("idx1_unit_const", "Binary", "unit", Attr([PH(1)], ["K7"]))
    rej("idx1_ws", "Display", "t1", Attr([PH(1, ws=" ")], ["_0"]))
    rej("idx2_two_args", "Display", "t2", Attr([PH(2)], ["_0", "_1"]))
    rej("idx0_no_args", "Display", "t1", Attr([PH(0)]))
    rej("idx1_no_args_field_exists", "Display", "t2", Attr([PH(1, ty="x")]))            # `{1}` is not the field `_1`
    return R


def family(tier, seed):
    cs = cases(tier, seed)
    progs = []
    for c in cs:
        progs.append(build(c, with_contract=(c.key == "bare_lhex_imp_pos"),
                           with_control=(c.key in ("bare_lhex_imp_pos", "mod_width_lhex_fieldname_t"))))
    rejs = rejections()
    n_tr = sum(1 for p in progs if p.meta["transparent"])
    assert any(len(p.harnesses) == 3 for p in progs)
    n_progs = len(progs)
    progs = progs + rejs
    return Family(
        "C05", progs, common_src=COMMON, crate_attrs=CRATE_ATTRS,
        kani_flags=["-Z", "function-contracts", "--no-assertion-reach-checks"], unwind=20, level="proof",
        functions_under_contract=[
            "generated <T as fmt::{Display,Binary,Octal,LowerHex,UpperHex,LowerExp,UpperExp,Pointer}>::fmt for every struct / enum of the family "
            "(expanded by /repo/impl/src/fmt/display.rs; transparency decided by fmt/mod.rs::transparent_call / transparent_call_on_fields)",
            "generated <T as fmt::Debug>::fmt for types with a struct- or variant-level #[debug(\"...\")] (impl/src/fmt/debug.rs::generate_body)"],
        trusted_base=["core::fmt::FormattingOptions / Formatter::{fill,align,sign_plus,sign_minus,alternate,sign_aware_zero_pad,width,precision,options} "
                      "as the definition of 'the caller's flags' (nightly feature formatting_options)",
                      "the field type's own fmt trait method as the definition of 'formatted directly'"],
        assumptions=["fields are Probe(u8) with a symbolic tag; a probe's fmt impls record the Formatter state instead of padding, so integer/float "
                     "formatting of real field types is not exercised (the derive hands the field and the formatter through untouched, which is what is proved)",
                     "the only loops are Sink::write_str (bounded by the constant MAXP=16, literal pieces are shorter) and core::fmt::write over the "
                     "concrete pieces of the literal; unwinding assertions are on (--default-unwind 20): per program the bound is concrete, so the "
                     "obligations are complete over formatter options and field values",
                     "`{:p}` with a bare field as argument expression is excluded (needs std's pointer formatting under a symbolic width); see C02",
                     "'an out-of-range positional index is a compile error' is a type-level obligation: the rej_* programs must be rejected by rustc "
                     "(the macro must not swallow the index by delegating); they carry no verifier harness"],
        rule="one program per (derived trait, shape, literal, argument list): bare placeholder in each of the 9 traits x 11 ways of referring to the "
             "argument/field x 12 single modifiers x 6 contexts (text, escapes, several placeholders) x no-attribute single-field types x "
             "Debug with container attribute x enum variants; %d transparent, %d inert programs. Every obligation quantifies over all formatter "
             "options and all field values; distinct = harnesses discharged. Plus %d must-be-rejected programs (out-of-range positional "
             "index), discharged by rustc" % (n_tr, n_progs - n_tr, len(rejs)),
        extra_cov={"transparent_programs": n_tr, "inert_programs": n_progs - n_tr},
        harness_timeout=600,
    )
