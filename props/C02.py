"""C02 -- derived formatting prints exactly what format! prints for the same literal.

Contract on the generated `fmt` (the real macros of /repo expand every type below), under a flag-free (default) formatter,
for every field value:

    post_fmt(v, out) := out == bytes(v.reference(f))          byte-for-byte, nothing lost (`!overflow`), same fmt::Result

`reference` is an inherent method generated next to the type: `match self { <pattern that binds every field BY REFERENCE under its
documented name: x, _0, _1, ..> => <oracle> }`, so inside the oracle `self` is the value and a field's name is a reference to the
field, exactly as the property states for argument expressions. The oracle is
  * own attribute `#[<trait>("literal", args..)]`:  `f.write_fmt(format_args!("literal", args.., name = *name ..))` -- the SAME
    literal and the SAME argument tokens; every field that is named inside the literal is additionally bound to the field
    ITSELF (`name = *name`; "the field itself when named inside the literal"). This is what makes `{_0:p}` print the
    field's own Pointer impl rather than the address of a reference. std's `format_args!` is the oracle, not a model of it;
  * no attribute, one field:  `<Field as DerivedTrait>::fmt(&field, f)`;
  * no attribute, unit:       `f.write_str("<name>")`, the name converted by vlib/fmtprobe.rename() -- written from the documented list
    of casings -- when `rename_all` is given.
Fields are probes (vlib/fmtprobe.py): every fmt trait writes a record of (trait letter, symbolic tag, Formatter state), so
which field was printed under which trait with which width/precision is visible as bytes; `usize` fields/arguments feed
`$`-width and precision; `&'static u8` fields exercise std's real Pointer formatting.

Corners kept out and reported instead:
  * rename_all on names with digits (`V2` -> `v_2` under snake_case with convert_case 0.8; the documentation says nothing).
Defect found by two programs (`ptr_arg_bare_field_probe`, `ptr_arg_bare_field_real`), reproduced natively, fixed in /repo f6717fb:
  `#[display("{:p}", _0)]` printed the field's own Pointer impl / the pointee's address, although as an argument expression `_0` is a
  reference to the field (docs: "you have to dereference once"); the very same argument in `#[display("a{:p}", _0)]` printed the address
  of the field. Cause: transparent_call_on_fields handed the binding itself (`_0`, a `&Field`) to `Pointer::fmt` whenever the single
  argument was a bare field, whether the name came from the literal or from the argument list.
"""
import itertools
import random

from vlib.core import Family
from vlib.fmtprobe import (PH, Lit, Arg, Attr, Field, Variant, TypeDef, COMMON, CRATE_ATTRS, DISPLAY_LIKE, TRAITS, TY, SHORT, REC, CASINGS,
                           ref_attr, ref_implicit, ref_direct, ref_str, reference_program, rename)

T1, T2, T3 = [None], [None, None], [None, None, None]
N1, N2, N3 = ["a"], ["a", "b"], ["a", "b", "c"]
RENAME_NAMES = ["HttpError", "XMLThing", "snake_case_Name", "VariantOne", "A"]


def P(arg=None, ty="", **kw):
    return PH(arg, ty, **kw)


class Case:
    def __init__(self, key, td, multi=False, unwind=None):
        self.key, self.td, self.multi, self.unwind = key, td, multi, unwind


def st(derive, fields, attr=None, rename_all=None, name="T", extra=()):
    return TypeDef(derive, Variant(None, fields, attr=attr), rename_all=rename_all, name=name, extra=extra)


def en(derive, variants, rename_all=None, extra=()):
    return TypeDef(derive, variants, is_enum=True, rename_all=rename_all, extra=extra)


def cases(tier, seed):
    out, seen = [], set()

    def add(key, td, multi=False, unwind=None):
        assert key not in seen, key
        seen.add(key)
        out.append(Case(key, td, multi, unwind))

    # 1. each trait letter: a field named in the literal and a positional argument, derive of the same trait (Debug: container attribute)
    for t in TRAITS:
        ty = TY[t]
        add("each_%s_named_and_pos" % SHORT[t], st(t, T2, Attr([P("_0", ty), "/", P(None, ty)], ["*_1" if t == "Pointer" else "_1"])))
    # 2. positional / named / implicit / mixed, three fields
    add("pos_implicit3", st("Display", T3, Attr([P(), " ", P(), " ", P()], ["_0", "_1", "_2"])))
    add("pos_explicit_perm", st("Display", T3, Attr([P(2), P(0), P(1)], ["_0", "_1", "_2"])))
    add("named_perm_t3", st("LowerHex", T3, Attr([P("_2"), P("_0", "x"), P("_1")])))
    add("named_perm_n3", st("Display", N3, Attr([P("c"), "-", P("a"), "-", P("b", "o")])))
    add("mixed_counter", st("Display", T3, Attr([P(1), " ", P(), " ", P("_2"), " ", P()], ["_0", "_1"])))
    add("repeated_index", st("Display", T2, Attr([P(0), P(0, "x"), P(1, "?")], ["_1", "_0"])))
    add("mixed_named_struct", st("Display", N3, Attr([P(), P("b"), P()], ["c", "a.twin()"])))
    # 3. `$` width / precision arguments
    PU = [Field(), Field(ty="usize")]
    add("width_pos_arg", st("Display", PU, Attr([P(width=("arg", 1))], ["_0", "*_1"])))
    add("width_pos_arg_explicit", st("Display", PU, Attr([P(0, "x", align=">", width=("arg", 1))], ["_0", "*_1"])))
    add("prec_star", st("Display", PU, Attr([P(prec="*")], ["*_1", "_0"])))
    add("prec_star_then_implicit", st("Display", PU, Attr([P(prec="*"), " ", P()], ["*_1", "_0", "_0.twin()"])))
    add("width_prec_named_args", st("Display", PU, Attr([P(width=("arg", "w"), prec=("arg", "p"))], ["_0", Arg("*_1", "w"), Arg("2", "p")])))
    add("width_named_const_field_in_literal", st("Display", T1, Attr([P("_0", width=("arg", "w"))], [Arg("3", "w")])))
    add("width_from_named_field", st("Display", [Field("a"), Field("n", "usize")], Attr([P("a", "e", prec=("arg", "k"))], [Arg("*n", "k")])))
    # 4. escapes and surrounding text
    add("escapes_around", st("Display", T1, Attr(["{", P("_0"), "}"])))
    add("escapes_and_text", st("Display", T1, Attr(["a{b}c ", P("_0"), " d"])))
    add("text_only", st("Display", T2, Attr(["plain text"])))
    add("empty_literal", st("Display", T1, Attr([])))
    add("escapes_only", st("Binary", T1, Attr(["{}"])))
    # one modifier-free placeholder in a literal that starts AND ends with a brace only because of ESCAPES (both sides, one side each):
    # not a lone placeholder -- the braces and the text are printed (seed C03_r2_2: they vanished through a transparent delegation)
    add("escapes_both_sides_implicit", st("Display", T1, Attr(["{", P(), "}"], ["_0"])))
    add("escapes_end_only", st("Display", T1, Attr([P("_0"), "{}"])))
    add("escapes_start_only_text", st("Display", N1, Attr(["{a}=", P("a")])))
    add("escapes_start_only", st("LowerHex", T1, Attr(["{}", P(0, "x")], ["_0"])))
    add("escapes_both_sides_variant", en("Display", [Variant("Other", []), Variant("V", T1, attr=Attr(["{", P(), "}"], ["*_0"])),
                                                     Variant("W", N1, attr=Attr(["{a}", P("a", "o")]))]))
    add("escapes_both_sides_debug", st("Debug", T1, Attr(["{", P("_0", "?"), "}"])))
    add("escapes_end_only_debug_variant", en("Debug", [Variant("Other", T1), Variant("V", T1, attr=Attr([P(None), "{x}"], ["_0"]))]))
    # a lone Display placeholder carrying only `#`: format! hands the alternate flag to the field (the probe records it; seed C02 r5_2)
    add("alt_only_disp_fieldname", st("Display", T1, Attr([P("_0", alt=True)])))
    add("alt_only_disp_imp_pos", st("Display", T1, Attr([P(None, alt=True)], ["_0"])))
    add("alt_only_disp_named_variant", en("Display", [Variant("Other", []), Variant("V", N1, attr=Attr([P("a", alt=True)]))]))
    add("alt_only_disp_debug_attr", st("Debug", T1, Attr([P("_0", alt=True)])))
    # a named Pointer placeholder with whitespace between the type letter and `}` in a non-transparent literal: still the field itself
    # (seed C02 r5_3: `{ptr:p }` stopped parsing, so no `ptr = *ptr`)
    add("ptr_ws_after_type_named_t2", st("Display", T2, Attr(["[", P("_0", "p", ws=" "), "] ", P("_1")])))
    add("ptr_ws_after_type_named_variant", en("LowerHex", [Variant("Other", [], attr=Attr(["o"])), Variant("V", N2, attr=Attr([P("b", "p", ws="  "), "/", P("a", "x", ws=" ")]))]))
    add("ptr_ws_after_type_debug", st("Debug", T1, Attr(["p ", P("_0", "p", ws=" ")])))
    add("ptr_real_ws_after_type_named", st("Display", [Field(ty="refu8"), Field()], Attr(["[", P("_0", "p", ws=" "), "] ", P("_1")])), unwind=20)
    # 5. whitespace before `}`
    add("ws_named_and_index", st("Display", T2, Attr([P("_0", ws=" "), " ", P(0, ws=" ")], ["_1"])))
    add("ws_typed_with_text", st("Display", T1, Attr(["x", P(None, "x", ws=" ")], ["_0"])))
    # 6. argument lists
    add("args_deref_and_method", st("Display", T2, Attr([P(), " ", P()], ["*_0", "_1.twin()"])))
    add("args_aliases_swapped", st("Display", T2, Attr([P("x"), " ", P("y")], [Arg("_1", "x"), Arg("*_0", "y")])))
    add("args_self_members", st("Display", T2, Attr([P(), " ", P()], ["self.1", "self.0.twin()"])))
    add("args_self_named_member", st("Octal", N2, Attr([P(None, "o")], ["self.b"])))
    add("args_field_and_literal_name", st("Display", N2, Attr([P(), " ", P("a")], ["b"])))
    add("args_alias_shadows_field", st("Display", N2, Attr([P("a")], [Arg("b.twin()", "a")])))
    # 7. shapes
    add("unit_literal", st("Display", [], Attr(["unit text"])))
    add("unit_with_const_arg", st("UpperHex", [], Attr([P(None, "X"), "!"], ["K7"])))
    add("named1_literal", st("Display", N1, Attr(["<", P("a"), ">"])))
    add("raw_ident_named", st("Display", [Field("r#type")], Attr(["t=", P("type")])))
    add("raw_ident_arg_and_name", st("Display", [Field("r#type"), Field("b")], Attr([P(), " ", P("type", "x"), " ", P("b")], ["r#type.twin()"])))
    add("raw_ident_pointer_ctx", st("Display", [Field("r#type")], Attr(["x", P("type", "p")])))
    add("enum_each_kind", en("Display", [
        Variant("Unit", [], attr=Attr(["u-lit"])),
        Variant("Tup", T2, attr=Attr([P("_1"), "/", P(None, "x")], ["_0"])),
        Variant("Named", N2, attr=Attr([P("b"), P(None, "?")], ["a.twin()"])),
        Variant("Single", T1),
        Variant("Bare", []),
        Variant("SingleNamed", N1),
    ]))
    add("enum_lhex_each_kind", en("LowerHex", [
        Variant("Unit", [], attr=Attr(["u"])),
        Variant("Tup", T3, attr=Attr([P(2), P(0), P(1, "x")], ["_0", "_1", "_2"])),
        Variant("Single", T1),
        Variant("Raw", [Field("r#fn")], attr=Attr([P("fn", "x"), "+", P()], ["r#fn"])),
    ]))
    # 8. implicit bodies
    for i, t in enumerate(DISPLAY_LIKE):
        add("implicit_%s_%s" % (SHORT[t], "t1" if i % 2 else "n1"), st(t, T1 if i % 2 else N1))
    add("implicit_unit_struct", st("Display", [], name="HttpError"))
    add("implicit_unit_struct_binary", st("Binary", [], name="XMLThing"))
    add("implicit_raw_unit_variant", en("Display", [Variant("r#fn", []), Variant("r#Type", []), Variant("Plain", [])]), multi=True)
    for c in CASINGS:
        add("rename_all_enum_%s" % c.replace("-", "_"), en("Display", [Variant(n, []) for n in RENAME_NAMES], rename_all=c), multi=True)
    add("rename_all_struct_kebab", st("Display", [], rename_all="kebab-case", name="XMLThing"))
    add("rename_all_struct_camel", st("Display", [], rename_all="camelCase", name="snake_case_Name"))
    add("rename_all_variant_overrides", en("Display", [Variant("HttpError", [], rename_all="SCREAMING_SNAKE_CASE"), Variant("VariantOne", []),
                                                       Variant("XMLThing", [], rename_all="PascalCase"),
                                                       Variant("Lit", [], attr=Attr(["Kept As-Is"]))], rename_all="lowercase"), multi=True)
    # 9. Pointer
    add("ptr_probe_named_ctx", st("Display", T1, Attr(["x", P("_0", "p")])))
    add("ptr_probe_named_twice_t2", st("Pointer", T2, Attr([P("_1", "p"), P("_0", "p"), P("_1")])))
    add("ptr_probe_variant_named", en("Display", [Variant("Other", []), Variant("V", N2, attr=Attr(["<", P("b", "p"), ">", P(None, "p")], ["*a"]))]))
    RU = [Field(ty="refu8")]
    add("ptr_real_named_bare", st("Display", RU, Attr([P("_0", "p")])), unwind=20)
    add("ptr_real_named_ctx", st("Display", RU, Attr(["at ", P("_0", "p")])), unwind=20)
    add("ptr_real_arg_deref", st("Display", RU, Attr([P(None, "p")], ["*_0"])), unwind=20)
    add("ptr_real_arg_ref_ctx", st("Display", RU, Attr(["a", P(None, "p")], ["_0"])), unwind=20)
    # `{:p}` with the bare field as its argument: a reference to the field (defect fixed in /repo f6717fb, see module docstring)
    add("ptr_arg_bare_field_probe", st("Display", T1, Attr([P(None, "p")], ["_0"])), unwind=20)
    add("ptr_arg_bare_field_real", st("Display", RU, Attr([P(None, "p")], ["_0"])), unwind=20)
    # `{field:p}` next to a `:p` placeholder that is bound to an EXPLICIT named argument: the field named in the literal is still the
    # field itself, an alias that re-binds a field's name replaces exactly that field (seed C02_1: all `field = *field` dropped)
    add("ptr_named_field_and_alias_arg", st("Display", T2, Attr([P("_0", "p"), "/", P("q", "p")], [Arg("*_1", "q")])))
    add("ptr_named_field_and_alias_arg_n3", st("LowerHex", N3, Attr([P("b", "p"), P("k", "p"), P("a", "p"), P("c")], [Arg("c.twin()", "k")])))
    add("ptr_alias_rebinds_one_field", st("Display", N2, Attr([P("a", "p"), "/", P("b", "p")], [Arg("b.twin()", "a")])))
    add("ptr_named_field_and_alias_arg_variant", en("Display", [Variant("Other", []), Variant("V", N2, attr=Attr(["<", P("a", "p"), P("z", "p"), ">"], [Arg("*b", "z")]))]))
    add("ptr_named_field_and_alias_arg_debug", st("Debug", T2, Attr([P("_1", "p"), " ", P("q", "p")], [Arg("_0.twin()", "q")])))
    add("ptr_named_field_and_alias_arg_debug_variant", en("Debug", [Variant("Other", T1), Variant("V", T2, attr=Attr([P("q", "p"), P("_0", "p")], [Arg("*_1", "q")]))]))
    add("ptr_real_named_field_and_alias_arg", st("Display", [Field(ty="refu8"), Field(ty="refu8")], Attr([P("_0", "p"), " / ", P("other", "p")], [Arg("*_1", "other")])), unwind=20)
    # literals whose ONLY Pointer placeholders carry modifiers and name a field: still the field itself (seed C02_r3_1: no `field = *field`
    # unless the text contained a plain `:p`)
    add("ptr_mod_width_named", st("Display", T1, Attr([P("_0", "p", width=6)])))
    add("ptr_mod_fillalign_named_t2", st("LowerHex", T2, Attr([P("_1", "p", fill="*", align="<", width=5), "/", P("_0")])))
    add("ptr_mod_alt_named_n2", st("Display", N2, Attr([P("b", "p", alt=True), " ", P("a", "x")])))
    add("ptr_mod_zero_width_named", st("Pointer", T1, Attr(["p=", P("_0", "p", zero=True, width=8)])))
    add("ptr_mod_named_variant", en("Display", [Variant("Other", []), Variant("V", N2, attr=Attr([P("a", "p", align="^", width=7), P(None, "p", width=3)], ["*b"]))]))
    add("ptr_mod_alt_named_debug", st("Debug", T1, Attr([P("_0", "p", alt=True)])))
    add("ptr_mod_width_named_debug_variant", en("Debug", [Variant("Other", T1), Variant("V", T2, attr=Attr([P("_1", "p", align=">", width=4), P("_0", "?")]))]))
    add("ptr_mod_raw_ident", st("Display", [Field("r#type")], Attr([P("type", "p", sign="+")])))
    add("ptr_real_mod_width_named", st("Display", RU, Attr([P("_0", "p", align=">", width=20)])), unwind=24)
    add("ptr_real_mod_alt_named_debug", st("Debug", RU, Attr(["at ", P("_0", "p", alt=True)])), unwind=24)
    # rename_all next to ANOTHER attribute of the same item, in both orders (`bound(..)` may be repeated freely; seed C02_3: a later
    # non-rename_all attribute erased the casing)
    B = "bound(Probe: Clone)"
    add("rename_all_enum_then_bound", en("Display", [Variant(n, []) for n in RENAME_NAMES[:3]], rename_all="snake_case", extra=[("last", B)]), multi=True)
    add("rename_all_enum_after_bound", en("Display", [Variant(n, []) for n in RENAME_NAMES[:3]], rename_all="SCREAMING-KEBAB-CASE", extra=[("first", B)]), multi=True)
    add("rename_all_enum_between_bounds", en("Display", [Variant(n, []) for n in RENAME_NAMES[1:4]], rename_all="camelCase",
                                             extra=[("first", B), ("last", "bound(Probe: Copy)"), ("last", "bounds(u8: Copy)")]), multi=True)
    add("rename_all_variant_then_bound", en("Display", [Variant("HttpError", [], rename_all="kebab-case", extra=[("last", B)]),
                                                        Variant("XMLThing", [], rename_all="UPPERCASE", extra=[("first", B)]),
                                                        Variant("VariantOne", [], extra=[("last", B)])], rename_all="snake_case", extra=[("last", B)]), multi=True)
    add("rename_all_struct_then_bound", st("Display", [], rename_all="SCREAMING_SNAKE_CASE", name="HttpError", extra=[("last", B)]))
    add("rename_all_struct_after_bound", st("Display", [], rename_all="snake_case", name="XMLThing", extra=[("first", B)]))
    # raw identifiers as the NAME of a unit struct / unit variant under rename_all at struct, enum and variant level: the name is
    # un-rawed first, then converted (seed C02_r2_1: "r#type", "R#YIELD", "r#try-block")
    add("rename_all_raw_enum_kebab", en("Display", [Variant("r#type", []), Variant("r#TryBlock", []), Variant("r#Yield", []), Variant("Plain", [])],
                                         rename_all="kebab-case"), multi=True)
    add("rename_all_raw_enum_upper", en("Display", [Variant("r#Yield", []), Variant("r#TryBlock", []), Variant("r#fn", [])], rename_all="UPPERCASE"), multi=True)
    add("rename_all_raw_variant_level", en("Display", [Variant("r#TryBlock", [], rename_all="snake_case"), Variant("r#type", [], rename_all="PascalCase"),
                                                       Variant("r#Yield", [])]), multi=True)
    add("rename_all_raw_struct_snake", st("Display", [], rename_all="snake_case", name="r#TryBlock"))
    add("rename_all_raw_struct_screaming", st("Display", [], rename_all="SCREAMING-KEBAB-CASE", name="r#Yield"))
    # derive(Debug): variants WITHOUT an attribute after variants WITH one print by themselves (reference: core's own DebugTuple /
    # DebugStruct builders and the name, under the default formatter; seed C02_r2_3: they inherited the preceding variant's format)
    add("debug_attr_then_plain_variants", en("Debug", [
        Variant("First", [], attr=Attr(["DBG"])), Variant("Info", []), Variant("Square", T1), Variant("Pair", T2), Variant("Rec", ["x"]),
        Variant("Last", [], attr=Attr(["last"])), Variant("AfterLast", [])]))
    add("debug_field_attr_then_plain_variants", en("Debug", [
        Variant("Before", T1), Variant("Circle", T1, attr=Attr(["circle of ", P("_0")])), Variant("Square", T1), Variant("Rect", T2),
        Variant("Named", ["x"], attr=Attr([P("x", "x")])), Variant("Other2", ["x"])]))
    # 10. Debug with a variant-level attribute
    add("debug_variant_attr", en("Debug", [Variant("Other", T1), Variant("V", N2, attr=Attr([P("a"), " ", P("b", "x"), " ", P(None, "?")], ["a.twin()"]))]))
    if tier == "thorough":
        thorough(add, seed)
    return out


def lit_templates(names, ty):
    """literal kinds over the fields `names` (2 or 3 of them); returns (label, parts, args)"""
    a, b = names[0], names[1]
    c = names[2] if len(names) > 2 else names[0]
    tw = lambda n: ("r#" + n if n in ("type", "fn") else n)
    return [
        ("implicit", [P(None, ty), ",", P(None, ty)], [tw(b), tw(a)]),
        ("explicit", [P(1, ty), ",", P(0, ty), P(1)], [tw(a), tw(c)]),
        ("named", [P(b, ty), ",", P(a, ty)], []),
        ("mixed", [P(None, ty), P(a, ty), P(None), P(0, ty)], [tw(b) + ".twin()", "*" + tw(c)]),
        ("alias", [P("q", ty), "{", P(a), "}"], [Arg("*" + tw(b), "q")]),
        ("selfexpr", [P(None, ty), " ", P(c, ty, ws=" ")], ["self.%s.twin()" % (tw(a) if not a.startswith("_") else a[1:])]),
        ("widtharg", [P(a, ty, width=("arg", "w")), P(None, ty, prec="*")], ["4", tw(b), Arg("9", "w")]),
    ]


def thorough(add, seed):
    shapes = [("t2", T2, ["_0", "_1"]), ("t3", T3, ["_0", "_1", "_2"]), ("n2", N2, ["a", "b"]), ("n3", N3, ["a", "b", "c"]),
              ("raw", [Field("r#type"), Field("x"), Field("r#fn")], ["type", "x", "fn"])]
    rot = itertools.cycle(DISPLAY_LIKE + ["Debug"])
    for t in TRAITS:
        for slab, fields, names in shapes:
            for llab, parts, args in lit_templates(names, TY[t]):
                d = next(rot)
                key = "prod_%s_%s_%s" % (SHORT[t], slab, llab)
                if (slab in ("t3", "n3", "raw") and llab in ("implicit",)) and t not in ("Display", "Pointer"):
                    continue
                add(key + "_st", st(d, fields, Attr(parts, args)))
                if llab in ("named", "mixed", "alias") and "self." not in "".join(a if isinstance(a, str) else a.expr for a in args):
                    add(key + "_en", en(d, [Variant("Other", T1, attr=Attr(["o"])), Variant("V", fields, attr=Attr(parts, args))]))
    for c in CASINGS:
        for n in RENAME_NAMES:
            add("rename_struct_%s_%s" % (c.replace("-", "_"), n), st("Display", [], rename_all=c, name=n))


# ----------------------------------------------------------------------------------------------------
def ref_debug_builder(v):
    """derive(Debug) without an attribute: what core's own builders print for the variant (flat form; the formatter is the default one)"""
    name = v.name[2:] if v.name.startswith("r#") else v.name
    if v.kind == "unit":
        return 'f.write_str("%s")' % name
    if v.kind == "tuple":
        return 'f.debug_tuple("%s")%s.finish()' % (name, "".join(".field(%s)" % v.binder(i) for i in range(len(v.fields))))
    return 'f.debug_struct("%s")%s.finish()' % (name, "".join('.field("%s", %s)' % (v.lit_name(i), v.binder(i)) for i in range(len(v.fields))))


def build(case, with_contract=False, control=None):
    td = case.td
    exprs, minlen = {}, {}
    for v in td.variants:
        if td.is_enum and v.name == "Other":
            continue
        if v.attr:
            exprs[v.name] = ref_attr(v.attr, v)
            minlen[v.name] = v.attr.lit.text_len() + len(v.attr.lit.phs())
        elif td.derive == "Debug":
            exprs[v.name] = ref_debug_builder(v)
            minlen[v.name] = len(v.name)
        else:
            exprs[v.name] = ref_implicit(td, v)
            minlen[v.name] = 1
    what = "format_args! on the same literal with every field bound under its documented name / the field under the derived trait / the (renamed) name"
    return reference_program(case.key, td, exprs, what, minlen, with_contract=with_contract, control=control, multi=case.multi, unwind=case.unwind)


def family(tier, seed):
    progs = []
    for c in cases(tier, seed):
        ctl = None
        if c.key == "pos_explicit_perm":
            # the same literal with two arguments swapped
            ctl = ("T", 'f.write_fmt(format_args!("{2}{0}{1}", _1, _0, _2))')
        progs.append(build(c, with_contract=(c.key == "repeated_index"), control=ctl))
    n_h = sum(1 for p in progs for h in p.harnesses if h.kind == "proof")
    return Family(
        "C02", progs, common_src=COMMON, crate_attrs=CRATE_ATTRS,
        kani_flags=["-Z", "function-contracts", "--no-assertion-reach-checks"], unwind=20, level="proof",
        functions_under_contract=[
            "generated <T as fmt::{Display,Binary,Octal,LowerHex,UpperHex,LowerExp,UpperExp,Pointer}>::fmt for every struct / enum of the family "
            "(expanded by /repo/impl/src/fmt/display.rs: expand_struct / expand_enum bindings, Expansion::generate_body, RenameAllAttribute::convert_case; "
            "fmt/mod.rs: FmtAttribute::to_tokens, additional_deref_args, transparent_call_on_fields)",
            "generated <T as fmt::Debug>::fmt for types with a struct- or variant-level #[debug(\"...\")] (impl/src/fmt/debug.rs::generate_body)"],
        trusted_base=["core::format_args! / core::fmt::write of the pinned toolchain as the definition of 'what format! prints'",
                      "pattern binding `match self { T(_0, _1) => .. }` / `*_0` as the definition of 'a reference to the field' / 'the field itself'",
                      "the documented list of rename_all casings, each name read as the rendering of the two words of its own name"],
        assumptions=["post-conditions are asserted under the default (flag-free) formatter, as the property says; other formatter states belong to C05",
                     "fields are Probe(u8) with symbolic tags (integer/float formatting of real field types is not exercised), usize width/precision "
                     "arguments range over 0..=255, `&'static u8` fields point to one of two statics",
                     "loops: Sink::write_str (constant bound MAXP=16), core::fmt::write over the concrete pieces of the literal, and for the "
                     "`&'static u8` programs std's hex-digit loop (<= 16 digits); --default-unwind 20 with unwinding assertions on: per program the "
                     "bounds are concrete, so the obligations are complete over field values",
                     "rename_all on names containing digits is outside the family (undocumented; convert_case 0.8 splits `V2` into `v_2`)",
                     "assertion reachability checks are off (--no-assertion-reach-checks); vacuity is guarded by covers and the negative control"],
        rule="one program per (derived trait, shape, literal, argument list); literal kinds {positional, named, implicit, mixed, `$`/`.*` width and "
             "precision arguments, `{{`/`}}`, surrounding text, whitespace before `}`} x 9 trait letters x argument lists {none, bare field, *field, "
             "field.method(), alias = expr, self.member} x shapes {unit, tuple 1-3, named 1-3, raw identifiers, enum variants of each kind}; "
             "implicit bodies per derive; rename_all: 8 casings x 5 names (acronym, underscores, single letter). One harness per struct / per variant "
             "(%d harnesses); each quantifies over all field values; distinct = harnesses discharged" % n_h,
        harness_timeout=600,
    )
