"""C07 -- enum-level format: wraps via `_variant`, otherwise is only a default.

Contract on the generated `fmt` of enums with a container-level `#[<trait>("SHARED", args..)]` (real macros of /repo), under the
default formatter, for every variant and every field value:

    post_fmt(v, out) := out == bytes(v.reference(f))

The reference is built per variant by THIS generator from the documented rule, with std's nested `format_args!`:
  * SHARED mentions `_variant` -- as a placeholder `{_variant}` or as an argument (`.., _variant` / `x = _variant`); decided by
    vlib/fmtprobe.mentions_variant() on the structured literal, never by impl/src/fmt --  =>  EVERY variant prints
        match format_args!(OWN) { _variant => f.write_fmt(format_args!(SHARED, args.., field = *field ..)) }
    where OWN is "the text the variant would print by itself": its own attribute (same literal, same argument tokens, fields bound as
    in C02), else its single field under the derived trait, else its name (rename_all applied);
  * otherwise  =>  OWN if the variant has its own attribute, SHARED (with the variant's fields bound by name) if it has none.
Fields are probes with symbolic tags (vlib/fmtprobe.py), so which field was printed where and under which trait is visible.
The two compile-time rejections of the statement (`_variant` with a specifier or a non-Display trait; enum-level `#[debug(..)]`)
are type-level obligations: the `rej_*` programs (Program.expect_compile=False) must be rejected; compiling is the violation.

Defect found by `wrap_ptr_implicit_single` (reproduced natively, fixed in /repo d476b1c): under derive(Pointer) with a wrapping
enum-level format, a single-field variant without attribute contributed `format_args!("{:p}", _0)` with `_0` the by-reference
binding, i.e. the address of the field slot instead of what the variant prints by itself.
Not in the family: `#[display("{0}", x = _variant)]` (an aliased `_variant` referenced by INDEX) is not recognised as a mention and
fails with rustc E0425 -- a compile error, nothing silent.
"""
import itertools
import random

from vlib.core import Family
from vlib.fmtprobe import (Program, PH, Lit, Arg, Attr, Field, Variant, TypeDef, COMMON, CRATE_ATTRS, DISPLAY_LIKE, TY, SHORT, REC,
                           format_args_text, ref_attr, implicit_name, mentions_variant, reference_program)

T1, T2 = [None], [None, None]


def P(arg=None, ty="", **kw):
    return PH(arg, ty, **kw)


# ----------------------------------------------------------------------------------------------------
# variant pools (fresh objects per enum)
# ----------------------------------------------------------------------------------------------------
def pool_mixed(ty, display):
    """unit / single / named / multi-field variants x own attribute {none, literal, bare placeholder}. Unit variants without an
    attribute exist for Display only (other derives reject them)."""
    vs = []
    if display:
        vs.append(Variant("U", []))
    vs += [Variant("Ua", [], attr=Attr(["u-lit"])),
           Variant("S", T1),
           Variant("Sl", T1, attr=Attr(["s:", P("_0", ty)])),
           Variant("Sb", T1, attr=Attr([P("_0", "o" if ty != "o" else "x")])),
           Variant("N", ["x"]),
           Variant("Nl", ["x"], attr=Attr([P("x", ty), "/", P()], ["x.twin()"])),
           Variant("M", T2, attr=Attr([P("_1"), P("_0", "o")]))]
    return vs


def pool_tuple(default_only):
    """every variant has `_0`"""
    vs = [Variant("S", T1),
          Variant("Sl", T1, attr=Attr(["s:", P("_0", "x")])),
          Variant("Sb", T1, attr=Attr([P("_0", "b")])),
          Variant("M", T2, attr=Attr([P("_1"), "+", P(None, "e")], ["_0"]))]
    if default_only:
        vs.append(Variant("M2", T2))            # several fields, no attribute: allowed when SHARED is only a default
        vs.append(Variant("Ua", [], attr=Attr(["u-lit"])))
    return vs


def pool_named(default_only):
    vs = [Variant("N", ["x"]),
          Variant("Nl", ["x"], attr=Attr(["n ", P("x", "b")])),
          Variant("Nm", ["x", "y"], attr=Attr([P("y"), P("x")]))]
    if default_only:
        vs.append(Variant("Nm2", ["y", "x"]))
    return vs


def pool_units():
    return [Variant("HttpError", []), Variant("XMLThing", []), Variant("snake_case_Name", [], rename_all="SCREAMING-KEBAB-CASE"),
            Variant("Lit", [], attr=Attr(["own {lit}"])), Variant("One", T1)]


class Case:
    def __init__(self, key, td):
        self.key, self.td = key, td


def cases(tier, seed):
    out, seen = [], set()

    rot = [0]

    def add(key, derive, shared, variants, rename_all=None, full=False, generics=None):
        assert key not in seen
        seen.add(key)
        if tier == "quick" and not full and len(variants) > 4:
            # quick: a rotating window of 4 variants of the pool (every pool member occurs under several shared literals);
            # thorough: the whole pool everywhere
            k = rot[0] % len(variants)
            rot[0] += 3
            variants = [(variants + variants)[k + i] for i in range(4)]
        out.append(Case(key, TypeDef(derive, variants, is_enum=True, shared=shared, rename_all=rename_all, generics=generics)))

    D = "Display"
    # ---- wrapping: SHARED mentions `_variant`
    add("wrap_bare_variant", D, Attr([P("_variant")]), pool_mixed("", True), full=True)                        # `{_variant}` alone
    add("wrap_text", D, Attr(["<", P("_variant"), ">"]), pool_mixed("", True), full=True)
    add("wrap_twice", D, Attr([P("_variant"), "|", P("_variant")]), pool_mixed("x", True))
    add("wrap_arg_only", D, Attr([P()], ["_variant"]), pool_mixed("", True))                                   # only as an argument
    add("wrap_arg_and_placeholder", D, Attr(["[", P(), "|", P("_variant"), "]"], ["_variant"]), pool_mixed("b", True), full=True)
    add("wrap_alias", D, Attr([P("v")], [Arg("_variant", "v")]), pool_mixed("", True))                          # `x = _variant`
    add("wrap_alias_twice_text", D, Attr(["pre ", P("v"), " ", P("v")], [Arg("_variant", "v")]), pool_mixed("e", True))
    add("wrap_idx0_arg", D, Attr([P(0), "!"], ["_variant"]), pool_mixed("", True))
    add("wrap_with_field_in_literal", D, Attr([P("_variant"), ": ", P("_0")]), pool_tuple(False))
    add("wrap_with_field_in_literal_typed", D, Attr([P("_0", "x"), " ", P("_variant"), " ", P("_0", "p")]), pool_tuple(False))
    add("wrap_with_field_arg", D, Attr([P("_variant"), " ", P()], ["_0.twin()"]), pool_tuple(False))
    add("wrap_with_field_and_variant_args", D, Attr([P(1), " ", P(0)], ["_variant", "*_0"]), pool_tuple(False))
    add("wrap_with_named_field", D, Attr([P("_variant"), "-", P("x", "o")]), pool_named(False))
    add("wrap_rename_all", D, Attr(["<", P("_variant"), ">"]), pool_units(), rename_all="snake_case")
    add("wrap_bare_rename_all", D, Attr([P("_variant")]), pool_units(), rename_all="camelCase")
    # ---- other derives (a unit variant needs its own attribute there)
    add("wrap_lhex_text", "LowerHex", Attr(["<", P("_variant"), ">"]), pool_mixed("x", False))
    add("wrap_lhex_bare_variant", "LowerHex", Attr([P("_variant")]), pool_mixed("x", False))
    add("wrap_bin_arg_only", "Binary", Attr([P(), "."], ["_variant"]), pool_mixed("b", False))
    add("wrap_uexp_field", "UpperExp", Attr([P("_variant"), "~", P("_0", "E")]), pool_tuple(False))
    add("wrap_ptr_own_attrs", "Pointer", Attr(["<", P("_variant"), ">"]),
        [Variant("Sl", T1, attr=Attr(["s:", P("_0", "p")])), Variant("Sa", T1, attr=Attr([P(None, "p")], ["*_0"])), Variant("Ua", [], attr=Attr(["u"]))])
    add("wrap_ptr_implicit_single", "Pointer", Attr(["<", P("_variant"), ">"]), [Variant("S", T1), Variant("N", ["x"])])
    # ---- every Display-like derive: a really wrapping format + variants WITHOUT attribute, whose implicit text is the field under the
    #      DERIVED trait (the probe's trait letter shows it; seed C07_r2_1: UpperHex used `{:x}`)
    for t in DISPLAY_LIKE:
        add("wrap_each_%s_implicit" % SHORT[t], t, Attr(["<", P("_variant"), ">"]), [Variant("S", T1), Variant("N", ["x"])])
    # ---- generic enums: the field of an attribute-less single-field variant is formatted under the derived trait, so its type needs
    #      that bound although the wrapping format does not name it (a missing bound is an `/expansion` violation; seed C07_r2_2)
    GEN = ("<A, B>", "<Probe, Probe>")
    add("wrap_generic_implicit_fields", D, Attr(["<", P("_variant"), ">"]),
        [Variant("First", [Field(ty="A")], attr=Attr(["first ", P("_0")])), Variant("Second", [Field(ty="B")]),
         Variant("Third", [Field("inner", "B")]), Variant("Unit", [])], generics=GEN, full=True)
    add("wrap_generic_implicit_fields_lhex", "LowerHex", Attr([P(), "!"], ["_variant"]),
        [Variant("First", [Field(ty="A")], attr=Attr(["first ", P("_0", "x")])), Variant("Second", [Field(ty="B")]),
         Variant("Third", [Field("inner", "B")]), Variant("Unit", [], attr=Attr(["unit"]))], generics=GEN, full=True)
    add("dflt_generic_fields", D, Attr(["d ", P("_0")]),
        [Variant("First", [Field(ty="A")], attr=Attr(["first ", P("_0", "o")])), Variant("Second", [Field(ty="B")]),
         Variant("Both", [Field(ty="B"), Field(ty="A")])], generics=GEN, full=True)
    # ---- `_variant` reached as an implicit `{}` AFTER a `.*` placeholder with an explicit argument (the `*` takes positional 0; seed C07 r5_1)
    add("wrap_after_star_named_field", D, Attr([P("_0", prec="*"), "|", P()], ["1", "_variant"]), pool_tuple(False))
    add("wrap_after_star_named_field_n", D, Attr([P("x", "e", prec="*"), "<", P(), ">"], ["2", "_variant"]), pool_named(False))
    # ---- a placeholder with a spec, no type letter and whitespace before `}` next to `_variant` (seed C07 r5_3: the literal stopped parsing)
    add("wrap_ws_after_spec_field", D, Attr([P("_variant"), "|", P("_0", align=">", width=3, ws=" ")]), pool_tuple(False))
    add("wrap_ws_after_spec_arg", D, Attr([P("_0", width=5, ws="  "), " ", P(None, ws=" ")], ["_variant"]), pool_tuple(False))
    # ---- generic enum, the shared format prints a generic field under ANOTHER trait than the variant's own attribute: both bounds are
    #      needed (seed C07 r5_2: the second one was dropped => `/expansion`)
    add("wrap_generic_two_traits_same_field", D, Attr([P("_variant"), " (raw: ", P("_0", "?"), ")"]),
        [Variant("A", [Field(ty="A")], attr=Attr(["A=", P("_0")])), Variant("Bv", [Field(ty="B")], attr=Attr(["b ", P("_0", "x")])),
         Variant("C", [Field(ty="B")])], generics=("<A, B>", "<Probe, Probe>"), full=True)
    # ---- default: SHARED does not mention `_variant`
    add("dflt_text", D, Attr(["shared text"]), pool_mixed("", True) + [Variant("M2", T2)], full=True)
    add("dflt_field_text", D, Attr(["sh ", P("_0")]), pool_tuple(True))
    add("dflt_bare_field", D, Attr([P("_0")]), pool_tuple(True))                                             # bare placeholder over the fields
    add("dflt_bare_field_typed", D, Attr([P("_0", "x")]), pool_tuple(True))
    add("dflt_args", D, Attr([P(), " ", P()], ["_0", "_0.twin()"]), pool_tuple(True))
    add("dflt_named", D, Attr([P("x", "x"), "!"]), pool_named(True))
    add("dflt_named_two", D, Attr([P("y"), P("x"), P()], ["x.twin()"]),
        [Variant("Nm2", ["y", "x"]), Variant("Nm3", ["x", "y"]), Variant("Nl", ["x"], attr=Attr(["n ", P("x")]))])
    add("dflt_pointer_field", D, Attr(["p", P("_0", "p")]), pool_tuple(True))
    add("dflt_rename_all", D, Attr(["shared"]), pool_units(), rename_all="kebab-case")
    add("dflt_oct", "Octal", Attr(["o", P("_0", "o")]), pool_tuple(True))
    add("dflt_variant_like_name", D, Attr([P("_variants")], [Arg("_0", "_variants")]), pool_tuple(True))       # not `_variant`
    if tier == "thorough":
        rng = random.Random(seed)
        shared_w = [("ph", lambda: Attr(["a", P("_variant"), "b"])), ("arg", lambda: Attr([P(), "b"], ["_variant"])),
                    ("two", lambda: Attr([P("_variant"), P()], ["_variant"])), ("alias", lambda: Attr(["a", P("q")], [Arg("_variant", "q")])),
                    ("bare", lambda: Attr([P("_variant")]))]
        for t in DISPLAY_LIKE:
            for lab, mk in shared_w:
                key = "prod_wrap_%s_%s" % (SHORT[t], lab)
                add(key, t, mk(), pool_mixed(TY[t], t == "Display"))
            add("prod_wrap_%s_field" % SHORT[t], t, Attr([P("_0", TY[t]), P("_variant")]), pool_tuple(False))
            add("prod_dflt_%s_field" % SHORT[t], t, Attr(["d", P("_0", TY[t])]), pool_tuple(True))
            add("prod_dflt_%s_named" % SHORT[t], t, Attr([P("x", TY[t])]), pool_named(True))
        for c in ("lowercase", "UPPERCASE", "PascalCase", "SCREAMING_SNAKE_CASE"):
            add("prod_wrap_rename_%s" % c, D, Attr([P("_variant"), "/", P()], ["_variant"]), pool_units(), rename_all=c)
    return out


# ----------------------------------------------------------------------------------------------------
def own_format_args(td, v):
    """the text the variant would print by itself, as a format_args!: own attribute, else single field, else name"""
    if v.attr:
        return format_args_text(v.attr, v)
    if len(v.fields) == 1:
        return 'format_args!("{:%s}", *%s)' % (TY[td.derive], v.binder(0))
    assert not v.fields, "a variant with several fields needs its own attribute under a wrapping format"
    return 'format_args!("%s")' % implicit_name(td, v)


def expectation(td, v):
    shared = td.shared
    if mentions_variant(shared):
        return "match %s { _variant => f.write_fmt(%s) }" % (own_format_args(td, v), format_args_text(shared, v))
    if v.attr:
        return ref_attr(v.attr, v)
    return ref_attr(shared, v)


def build(case, with_contract=False, control=None):
    td = case.td
    exprs, minlen = {}, {}
    for v in td.variants:
        exprs[v.name] = expectation(td, v)
        minlen[v.name] = 1
    w = mentions_variant(td.shared)
    what = ("SHARED mentions `_variant`: every variant prints SHARED with `_variant` = the variant's own text" if w else
            "SHARED does not mention `_variant`: own attribute if present, SHARED otherwise")
    p = reference_program(case.key, td, exprs, what, minlen, with_contract=with_contract, control=control)
    p.meta["wrapping"] = w
    return p


def rejections():
    """'A `_variant` placeholder carrying any format specifier or a non-Display trait is rejected at compile time, and an enum-level
    format attribute on Debug is rejected': type-level obligations discharged by rustc (Program.expect_compile=False: compiling is
    the violation). Each module is only the enum; without the rejection every one of them would expand to code that compiles
    (`fmt::Arguments` implements Display and Debug and accepts any flags), except where noted."""
    R = []

    def rej(key, derive, shared, variants=None):
        vs = variants or [Variant("A", T1), Variant("B", [], attr=Attr(["b"]))]
        td = TypeDef(derive, vs, is_enum=True, shared=shared)
        R.append(Program("rej_" + key, td.title(), "\nuse crate::common::*;\n\n" + td.decl() + "\n", [], expect_compile=False))

    D = "Display"
    rej("variant_width", D, Attr([P("_variant", align=">", width=8)]))
    rej("variant_debug_trait", D, Attr(["<", P("_variant", "?"), ">"]))
    rej("variant_alt_flag_in_text", D, Attr(["v: ", P("_variant", alt=True)]))
    rej("variant_prec_as_argument", D, Attr([P(None, prec=2)], ["_variant"]))
    rej("variant_zero_as_alias", D, Attr([P("v", zero=True, width=4)], [Arg("_variant", "v")]))
    rej("variant_one_plain_one_spec", D, Attr([P("_variant"), " ", P("_variant", sign="+")]))
    # every kind of modifier as the ONLY thing in the specifier (one program per disjunct of "carries any format specifier"), in
    # placeholder and in argument form; `fmt::Arguments` accepts every one of them, so only the derive's rejection stops these
    rej("variant_only_align", D, Attr([P("_variant", align="<")]))
    rej("variant_only_fill_align", D, Attr([P("_variant", fill="*", align="^")]))
    rej("variant_only_align_as_argument", D, Attr([P(None, align=">")], ["_variant"]))
    rej("variant_only_fill_align_as_alias", D, Attr(["[", P("v", fill="-", align="<"), "]"], [Arg("_variant", "v")]))
    rej("variant_plain_then_only_fill_align", D, Attr([P("_variant"), " ", P("_variant", fill="-", align="<")]))
    rej("variant_only_plus", D, Attr([P("_variant", sign="+")]))
    rej("variant_only_minus_as_argument", D, Attr([P(0, sign="-")], ["_variant"]))
    rej("variant_only_alt", D, Attr([P("_variant", alt=True)]))
    rej("variant_only_zero", D, Attr([P("_variant", zero=True)]))
    rej("variant_only_width", D, Attr([P("_variant", width=8)]))
    rej("variant_only_width_arg", D, Attr([P("_variant", width=("arg", "w"))], [Arg("6", "w")]))
    rej("variant_only_width_as_argument", D, Attr(["w ", P(None, width=3)], ["_variant"]))
    rej("variant_only_prec", D, Attr([P("_variant", prec=3)]))
    rej("variant_only_prec_star", D, Attr([P(None, prec="*")], ["2", "_variant"]))
    rej("variant_lhex_trait", D, Attr([P("_variant", "x")]))                    # (would not compile anyway: Arguments is not LowerHex)
    rej("variant_lhex_trait_lhex_derive", "LowerHex", Attr([P("_variant", "x")]),
        [Variant("A", T1), Variant("B", [], attr=Attr(["b"]))])                     # (same)
    rej("debug_enum_level_text", "Debug", Attr(["plain"]), [Variant("A", T1), Variant("B", [])])
    # ... also when the enum has no variant at all (seed C07_r2_3: the check sat inside the loop over the variants)
    R.append(Program("rej_debug_enum_level_empty_enum", '#[derive(Debug)] #[debug("plain")] enum T {}',
                     '\nuse crate::common::*;\n\n#[derive(derive_more::Debug)]\n#[debug("plain")]\npub enum T {}\n', [], expect_compile=False))
    R.append(Program("rej_debug_enum_level_empty_enum_args", '#[derive(Debug)] #[debug("{} {K7:?}", 1)] enum T {}',
                     '\nuse crate::common::*;\n\n#[derive(derive_more::Debug)]\n#[debug("{} {K7:?}", 1)]\npub enum T {}\n', [], expect_compile=False))
    rej("debug_enum_level_field", "Debug", Attr(["d ", P("_0", "?")]), [Variant("A", T1), Variant("C", T2)])
    return R


def family(tier, seed):
    progs = []
    for c in cases(tier, seed):
        ctl = None
        if c.key == "wrap_text":
            ctl = ("Sl", 'f.write_fmt(format_args!("s:{_0}", _0 = *_0))')          # own text without the wrapper
        progs.append(build(c, with_contract=("Sl" if c.key == "wrap_text" else False), control=ctl))
    n_w = sum(1 for p in progs if p.meta["wrapping"])
    n_h = sum(1 for p in progs for h in p.harnesses if h.kind == "proof")
    n_progs = len(progs)
    rejs = rejections()
    progs = progs + rejs
    return Family(
        "C07", progs, common_src=COMMON, crate_attrs=CRATE_ATTRS,
        kani_flags=["-Z", "function-contracts", "--no-assertion-reach-checks"], unwind=20, level="proof",
        functions_under_contract=[
            "generated <T as fmt::{Display,Binary,Octal,LowerHex,UpperHex,LowerExp,UpperExp,Pointer}>::fmt of every enum of the family "
            "(expanded by /repo/impl/src/fmt/display.rs: expand_enum, Expansion::shared_attr_info, Expansion::generate_body; "
            "fmt/mod.rs: contains_arg / placeholders_by_arg, transparent_call, additional_deref_args)"],
        trusted_base=["core::format_args! (nested) / core::fmt::write of the pinned toolchain as the definition of the printed text",
                      "pattern bindings of `match self` as 'the variant's fields available by name'"],
        assumptions=["post-conditions are asserted under the default formatter; caller's flags belong to C05",
                     "fields are Probe(u8) with symbolic tags",
                     "loops: Sink::write_str (constant bound 16) and core::fmt::write over the concrete pieces (nested once); --default-unwind 20, "
                     "unwinding assertions on; per program the bounds are concrete: complete over variants and field values",
                     "assertion reachability checks are off (--no-assertion-reach-checks); vacuity is guarded by covers and the negative control",
                     "`_variant` counted as 'mentioned as an argument' when an argument's expression is exactly `_variant` (bare or aliased)"],
        rule="one program per enum: shared literal {`{_variant}` alone, in text, twice, only as argument, as argument and placeholder, aliased, by "
             "index 0} x field references in the shared literal / its arguments x variant pool {unit, one field, named, several fields} x own attribute "
             "{none, literal, bare placeholder} x rename_all x derive; %d wrapping and %d default enums; one harness per variant (%d); each "
             "quantifies over all field values; distinct = harnesses discharged. Plus %d must-be-rejected enums (`_variant` with a specifier / "
             "non-Display trait, enum-level #[debug(..)]), discharged by rustc" % (n_w, n_progs - n_w, n_h, len(rejs)),
        harness_timeout=600,
    )
