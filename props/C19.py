"""C19 -- expansion is a deterministic pure function of the derive input.  PARTIAL: only the one mechanism that is a
function contract is decided here -- the hasher behind every hashed collection the expanders iterate over.

 (a) contract on the real `DeterministicState::build_hasher` and the `HashMap`/`HashSet` aliases (items extracted by name from
     /repo/impl/src/utils.rs on every run): two independently constructed collections hash every key identically, and the hasher
     equals the seed-free `DefaultHasher::default()`  -- loop-free, all u64 keys / all (u8,u8,u8) byte triples.
 (b) frame condition (mechanical scan, an assumption check, not a proof): no other hashed collection, random state, process-global
     mutable state, environment or clock access is named anywhere in impl/src.
Every other way an expander could depend on history or environment is NOT reachable by this technique.
"""
import hashlib
import os
import re
import sys

from vlib import core
from vlib.core import Family, Program, Harness
from props.C03 import extract_item, LostAnchor


def extract_stmt(src, start_re):
    m = re.search(start_re, src, re.M)
    if not m:
        raise LostAnchor("item not found: %s" % start_re)
    e = src.index(";", m.start())
    lines = src[:m.start()].split("\n")
    j = len(lines) - 2
    while j >= 0 and (lines[j].startswith("///") or lines[j].startswith("#[")):
        j -= 1
    start = len("\n".join(lines[:j + 1])) + 1 if j >= 0 else 0
    return src[start:e + 1]


def extract_struct(src):
    """`pub struct DeterministicState;` or a braced / tuple form of it"""
    m = re.search(r"^pub struct DeterministicState\b[^\n;{]*([;{])", src, re.M)
    if not m:
        raise LostAnchor("item not found: ^pub struct DeterministicState")
    if m.group(1) == ";":
        return extract_stmt(src, r"^pub struct DeterministicState\b")
    return extract_item(src, r"^pub struct DeterministicState\b")


FORBIDDEN = [
    (r"\bRandomState\b", "std's randomly seeded hasher state"),
    (r"std::collections::(hash_map::)?Hash(Map|Set)\b(?!.*DeterministicState)", "std hashed collection without the deterministic hasher"),
    (r"\bhash_map::(HashMap|RandomState)\b", "std hash_map items"),
    (r"\bHash(Map|Set)\s*::\s*(<[^>]*>\s*::\s*)?(new|with_capacity)\s*\(", "HashMap/HashSet::new()/with_capacity() exist only for std's RandomState: the hasher parameter is inferred as the random one"),
    (r"\bhashbrown\b|\bahash\b|\bfxhash\b|\bindexmap\b", "third-party hashed collection"),
    (r"\bthread_local!|\bstatic\s+mut\b|\bOnceLock\b|\bOnceCell\b|\blazy_static\b|\bLazyLock\b|\bAtomic(Usize|U64|U32|Bool|Isize)\b", "process-global mutable state"),
    (r"\bstd::env\b|\benv::var\b|\benv!\(|\boption_env!\(", "environment access"),
    (r"\bSystemTime\b|\bInstant::now\b|\bstd::time\b", "clock access"),
    (r"\brand::|\bgetrandom\b", "randomness"),
    (r"sort\w*\s*\(.*\bspan\s*\(\)|\{:\?\}[^;]*\bspan\s*\(\)|\bspan\s*\(\)[^;]*\{:\?\}|\bsource_text\(\)|\bSpan\b.*\b(start|end|line|column|byte_range)\s*\(\)",
     "ordering / text derived from Span positions (depends on where the item stands in the file and on the syntax context)"),
    (r"\bstd::fs\b|\bFile::open\b", "file-system access at expansion time"),
    (r"\*\s*(const|mut)\s+\w|\bas\s+usize\b.*ptr|\bptr::addr\b|\.addr\(\)|\bas_ptr\(\)", "address-valued data (raw pointers / addresses: hashing or ordering by them depends on ASLR)"),
]


def frame_scan():
    hits = []
    files = 0
    root = os.path.join(core.REPO, "impl", "src")
    for d, _, fs in sorted(os.walk(root)):
        for f in sorted(fs):
            if not f.endswith(".rs"):
                continue
            files += 1
            path = os.path.join(d, f)
            rel = os.path.relpath(path, core.REPO)
            for n, line in enumerate(open(path), 1):
                code = line.split("//")[0]
                for rx, what in FORBIDDEN:
                    if re.search(rx, code):
                        # the one sanctioned place: the definition of DeterministicState and the two aliases
                        if rel == "impl/src/utils.rs" and ("DeterministicState" in code or "DefaultHasher" in code):
                            continue
                        hits.append((rel, n, what, line.strip()))
    # every file naming HashMap/HashSet must take them from crate::utils (or define them)
    for d, _, fs in sorted(os.walk(root)):
        for f in sorted(fs):
            if not f.endswith(".rs"):
                continue
            path = os.path.join(d, f)
            rel = os.path.relpath(path, core.REPO)
            src = open(path).read()
            if re.search(r"\bHash(Map|Set)\b", src) and rel != "impl/src/utils.rs":
                if not re.search(r"use\s+(crate::utils|super)::\{?[^;]*\bHash(Map|Set)\b", src, re.S) and not re.search(r"utils::Hash(Map|Set)", src):
                    hits.append((rel, 0, "HashMap/HashSet named without importing the deterministic aliases from crate::utils", ""))
    return hits, files


def family(tier, seed):
    src = open(os.path.join(core.REPO, "impl/src/utils.rs")).read()
    items = [
        extract_struct(src),
        extract_item(src, r"^impl std::hash::BuildHasher for DeterministicState \{"),
        extract_stmt(src, r"^pub type HashMap<"),
        extract_stmt(src, r"^pub type HashSet<"),
    ]
    body = "\n\n".join(items)
    sha = hashlib.sha256(body.encode()).hexdigest()
    prog_src = body + r'''

// ---- appended by /verif/props/C19.py ------------------------------------------------------------------------
use std::hash::{BuildHasher, Hash, Hasher};

/// post-condition of the hasher contract: no per-instance / per-process seed
pub fn post_same_hash_u64(k: u64) -> bool {
    let a: HashMap<u64, u8> = HashMap::default();
    let b: HashMap<u64, u8> = HashMap::default();
    let s: HashSet<u64> = HashSet::default();
    let ha = a.hasher().hash_one(k);
    ha == b.hasher().hash_one(k) && ha == s.hasher().hash_one(k) && ha == DeterministicState.hash_one(k)
}
pub fn post_seed_free(k: u64) -> bool {
    // equals the documented seed-free default hasher
    let mut d = std::collections::hash_map::DefaultHasher::default();
    k.hash(&mut d);
    DeterministicState.build_hasher_then(k) == d.finish()
}
impl DeterministicState {
    fn build_hasher_then(&self, k: u64) -> u64 {
        let mut h = self.build_hasher();
        k.hash(&mut h);
        h.finish()
    }
}
#[cfg_attr(kani, kani::ensures(|r| *r == { let mut d = std::collections::hash_map::DefaultHasher::default(); k.hash(&mut d); d.finish() }))]
pub fn hash_contract(k: u64) -> u64 { DeterministicState.build_hasher_then(k) }

#[cfg(kani)]
mod proofs {
    use super::*;
    #[kani::proof]
    fn ob_same_hash_u64() {
        let k: u64 = kani::any();
        assert!(post_same_hash_u64(k), "two independently built collections hash every u64 key identically");
    }
    #[kani::proof]
    fn ob_seed_free() {
        let k: u64 = kani::any();
        assert!(post_seed_free(k), "build_hasher() == seed-free DefaultHasher::default()");
    }
    #[kani::proof]
    fn ob_same_hash_bytes() {
        let k: (u8, u8, u8) = kani::any();
        let a: HashSet<(u8, u8, u8)> = HashSet::default();
        let b: HashSet<(u8, u8, u8)> = HashSet::default();
        assert!(a.hasher().hash_one(k) == b.hasher().hash_one(k), "same hash for every byte triple");
    }
    #[kani::proof_for_contract(hash_contract)]
    fn ob_contract() { let _ = hash_contract(kani::any()); }
    #[kani::proof]
    fn control_false_post() {
        let k: u64 = kani::any();
        assert!(DeterministicState.hash_one(k) == DeterministicState.hash_one(k.wrapping_add(1)), "deliberately false");
    }
    // PLAYBACK-INSERTION-POINT
}
'''
    fn = "utils::DeterministicState::build_hasher, utils::HashMap / utils::HashSet aliases"
    hs = [
        Harness("ob_same_hash_u64", "forall k: u64. two independently constructed HashMap/HashSet (the crate's aliases) hash k identically", fn=fn),
        Harness("ob_seed_free", "forall k: u64. DeterministicState.build_hasher() hashes k like the seed-free DefaultHasher::default()", fn=fn),
        Harness("ob_same_hash_bytes", "forall (u8,u8,u8). same hash in two independently built HashSets", fn=fn),
        Harness("ob_contract", "#[kani::ensures] on hash_contract (thin wrapper of build_hasher), proof_for_contract", kind="contract", fn=fn),
        Harness("control_false_post", "deliberately false post-condition must FAIL", kind="negative_control"),
    ]
    prog = Program("hasher_x", "items DeterministicState, impl BuildHasher, type HashMap, type HashSet extracted by name from /repo/impl/src/utils.rs "
                   "(sha256 %s); everything else of that file is dropped" % sha[:16], prog_src, hs)
    return Family(
        "C19", [prog], kani_flags=["-Z", "function-contracts", "--no-assertion-reach-checks"], unwind=12, level="proof",
        functions_under_contract=[fn],
        trusted_base=["Kani's model of std::collections::hash_map::DefaultHasher (SipHash-1-3 executed bit-precisely)"],
        assumptions=["PARTIAL claim: only the hasher mechanism; every other way an expansion could depend on history / environment is not reachable",
                     "frame condition checked by a mechanical text scan (not a proof): no other hashed collection / global state / env / clock in impl/src",
                     "iteration order of std's HashMap is a function of the hasher and the insertion history only (std's implementation, trusted)"],
        rule="4 obligations on the extracted hasher items, each over the full key domain; plus the frame scan over impl/src",
        extra_cov={"hasher_items_sha256": sha},
    )


def run(tier, seed):
    hits, files = frame_scan()
    lost = None
    try:
        fam = family(tier, seed)
    except LostAnchor as e:
        lost = str(e)
    if lost is None:
        fam.extra_cov["frame_scan"] = {"files_scanned": files, "patterns": len(FORBIDDEN) + 1, "hits": [list(h) for h in hits]}
        rc = core.decide(fam, tier, seed)
    else:
        # the hasher items changed shape: the contract cannot be generated (undecided on its own) -- the frame scan still decides
        print("UNDECIDED property=C19 lost extraction anchor: %s" % lost)
        rc = 2
    frame_viol = 0
    for i, (rel, n, what, line) in enumerate(hits):
        okey = "frame/%s:%s" % (rel, what.split()[0])
        kf = core.known_open("C19", okey)
        if kf:
            print("KNOWN-FINDING: property=C19 %s %s" % (okey, kf.get("what", "")))
            continue
        path = core.write_replay("C19", "frame_%d" % i, {
            "property": "C19", "obligation": "frame condition: every hashed collection in impl/src is one of the deterministic aliases; no global state / env / clock",
            "failed": {"file": rel, "line": n, "what": what, "text": line}, "counterexample": None,
            "verifier_output": "mechanical scan hit (no input: the frame obligation is syntactic)"})
        print("VIOLATION property=C19 replay=%s obligation=%s %s:%s %s: `%s` no-failing-input-found" % (path, okey, rel, n, what, line[:160]))
        frame_viol += 1
    if frame_viol:
        # patch the evidence violation count
        import json
        p = os.path.join(core.VERIF, "evidence", "C19.json")
        if not os.path.exists(p):
            return 1
        ev = json.load(open(p))
        ev["violations"] = (ev.get("violations") or 0) + frame_viol
        json.dump(ev, open(p, "w"), indent=1)
        return 1
    return rc
