"""C03 -- format literals are interpreted exactly as std::fmt interprets them (parser half), and the
parser half of C18 (totality) on the same harnesses.

Function contracts `real_f(s) == spec_f(s)` on the REAL functions of /repo/impl/src/fmt/parsing.rs
(copied byte-for-byte into the harness crate on every run) and on `Placeholder::parse_fmt_string`
(extracted by item name from fmt/mod.rs), modular: callees are stubbed by their specifications.
"""
import hashlib
import os
import re

from vlib import core
from vlib.core import Family, Program, Harness

SPECS = os.path.join(core.VERIF, "specs")

BOUNDS = {
    "quick": dict(L0_TAIL=2, L1_TAIL=3, L1_INT=4, L2=3, L2_TYPE=2, L3_SPEC=5, L3_SPEC_W=4, L3_FMT=4, L4=5),
    "thorough": dict(L0_TAIL=3, L1_TAIL=4, L1_INT=6, L2=5, L2_TYPE=3, L3_SPEC=7, L3_SPEC_W=6, L3_FMT=6, L4=8),
}

APPEND = '''
// ---- appended by /verif/props/C03.py; nothing above this line is modified ------------------------------
#[path = "c03_spec.rs"]
pub(crate) mod spec;
#[cfg(kani)]
#[path = "c03_proofs.rs"]
mod proofs;
'''


def harness_list(b):
    def shape(p, w, s):
        return "inputs: ASCII prefix <= %d bytes (every 7-bit value)%s, ASCII suffix <= %d bytes" % (
            p, " + optionally one arbitrary Unicode scalar" if w else "", s)
    H = []

    def add(name, fn, stubs, bound, cover=2, kind="proof"):
        H.append(Harness(name, "%s(s) == spec(s) [remainder pointer+length and AST]" % fn, kind=kind, bounded=bound,
                         fn="fmt::parsing::" + fn, cover_min=cover, stubs=stubs))
    add("ob_any_char", "any_char", [], shape(0, True, b["L0_TAIL"]))
    add("ob_take_any_char", "take_any_char", [], shape(0, True, b["L0_TAIL"]))
    add("ob_char", "char(c) for every c", [], shape(0, True, b["L0_TAIL"]), cover=1)
    add("ob_str2", "str(\"{{\"), str(\"x?\")", [], shape(3, False, 0), cover=1)
    add("ob_one_of", "one_of(\"{}\")", [], shape(0, True, b["L0_TAIL"]), cover=1)
    add("ob_whitespaces", "whitespaces", [], shape(1, True, 2), cover=1)
    add("ob_text", "text", [], shape(1, True, b["L1_TAIL"]))
    add("ob_identifier", "identifier", ["XID tables -> uninterpreted predicate"], shape(1, True, b["L1_TAIL"]))
    add("ob_identifier_mid", "identifier", ["XID tables -> uninterpreted predicate"], shape(2, True, 1))
    add("ob_integer", "integer", [], shape(b["L1_INT"], False, 0))
    add("ob_align", "align", [], shape(0, True, 1))
    add("ob_sign", "sign", [], shape(0, True, 1))
    add("ob_type", "type_", ["whitespaces"], shape(b["L2_TYPE"], True, 1))
    add("ob_argument", "argument", ["identifier", "integer"], shape(b["L2"], True, 1))
    add("ob_parameter", "parameter", ["argument"], shape(b["L2"], True, 1))
    add("ob_count", "count", ["parameter", "integer"], shape(b["L2"], True, 1))
    add("ob_precision", "precision", ["count"], shape(b["L2"], True, 1))
    add("ob_format_spec", "format_spec", ["align", "sign", "count", "precision", "type_"], shape(b["L3_SPEC"], False, 0))
    add("ob_format_spec_wide_fill", "format_spec", ["align", "sign", "count", "precision", "type_"], shape(0, True, b["L3_SPEC_W"]))
    add("ob_format", "format", ["argument", "format_spec", "whitespaces"], shape(b["L3_FMT"], True, 1))
    add("ob_maybe_format", "maybe_format", ["format"], shape(b["L3_FMT"], False, 0))
    add("ob_format_string", "format_string", ["maybe_format", "text"], shape(b["L4"], False, 0), cover=3)
    H.append(Harness("tot_integer_long", "integer(s) neither panics nor overflows on digit strings up to 21 chars", bounded="<= 21 digits",
                     fn="fmt::parsing::integer", cover_min=1))
    return H


def family(tier, seed, only=None):
    b = BOUNDS[tier]
    real = open(os.path.join(core.REPO, "impl/src/fmt/parsing.rs")).read()
    sha = hashlib.sha256(real.encode()).hexdigest()
    consts = "".join("pub(crate) const %s: usize = %d;\n" % kv for kv in b.items())
    proofs = consts + open(os.path.join(SPECS, "c03_proofs.rs")).read()
    hs = harness_list(b)
    only = only or [x for x in os.environ.get("VERIF_ONLY", "").split(",") if x]
    if only:
        hs = [h for h in hs if h.name in only]
    prog = Program("parsing_x", "byte-for-byte copy of /repo/impl/src/fmt/parsing.rs (sha256 %s) + appended spec/proof modules" % sha[:16],
                   real + APPEND, hs, meta={"proofs_file": "src/c03_proofs.rs"})
    return Family(
        "C03", [prog],
        deps={"unicode-xid": '"0.2.2"'},
        kani_flags=["-Z", "stubbing"],
        unwind=13,
        level="model_checking",
        extra_files={"src/c03_spec.rs": open(os.path.join(SPECS, "fmt_spec.rs")).read(), "src/c03_proofs.rs": proofs},
        functions_under_contract=sorted({h.fn for h in hs}),
        trusted_base=["spec functions in /verif/specs/fmt_spec.rs (written from std::fmt's documented grammar; validated against rustc in the thorough tier)"],
        assumptions=["bounded string length per function (see each obligation); unwinding assertions on",
                     "XID_Start / XID_Continue of the (single) non-ASCII character are uninterpreted booleans: the proof holds for every XID predicate",
                     "at most one non-ASCII character per input string"],
        rule="one obligation per parser function; inputs symbolic within the stated shape; callees stubbed by their specs",
        harness_timeout=1500,
        bounded_note="every obligation of C03 is bounded in string length; none is counted as proved",
        extra_cov={"parsing_rs_sha256": sha},
    )
