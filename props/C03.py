"""C03 -- format literals are interpreted exactly as std::fmt interprets them (parser half), and the
parser half of C18 (totality) on the same harnesses.

Function contracts `real_f(s) == spec_f(s)` on the REAL functions of /repo/impl/src/fmt/parsing.rs
(copied byte-for-byte into the harness crate on every run) and on `Placeholder::parse_fmt_string`
(extracted by item name from fmt/mod.rs), modular: callees are stubbed by their specifications.
"""
import hashlib
import os
import re

from vlib import core
from vlib.core import Family, Program, Harness

SPECS = os.path.join(core.VERIF, "specs")

BOUNDS = {
    "quick": dict(W_WS=2, A_L1=4, W_L1=2, A_INT=4, A_TYPE=3, A_L2=4, A_SPEC=5, W_SPEC=3, A_FMT=4, A_FS=5),
    "thorough": dict(W_WS=3, A_L1=6, W_L1=4, A_INT=7, A_TYPE=4, A_L2=6, A_SPEC=8, W_SPEC=6, A_FMT=7, A_FS=8),
}

APPEND = '''
// ---- appended by /verif/props/C03.py; nothing above this line is modified ------------------------------
#[path = "c03_spec.rs"]
pub(crate) mod spec;
#[cfg(kani)]
#[path = "c03_proofs.rs"]
mod proofs;
'''


def harness_list(b):
    def asc(n):
        return "every ASCII string (all 7-bit bytes) of length <= %d" % n

    def wide(lead, t):
        return "%sone arbitrary Unicode scalar value + every ASCII tail of length <= %d" % ("<= 1 ASCII byte + " if lead else "", t)
    H = []

    def add(name, fn, stubs, bound, cover=2):
        H.append(Harness(name, "%s(s) == spec(s) [remainder pointer+length and AST]" % fn, bounded=bound,
                         fn="fmt::parsing::" + fn.split("(")[0], cover_min=cover, stubs=stubs))
    add("ob_any_char", "any_char", [], wide(False, 1))
    add("ob_take_any_char", "take_any_char", [], wide(False, 1))
    add("ob_char", "char(c) for every char c", [], wide(False, 1))
    add("ob_str2", "str(\"{{\"), str(\"x?\")", [], asc(3))
    add("ob_one_of", "one_of(\"{}\")", [], wide(False, 1))
    add("ob_whitespaces", "whitespaces", [], wide(True, b["W_WS"]))
    add("ob_text", "text", [], asc(b["A_L1"]))
    add("ob_text_wide", "text", [], wide(True, b["W_L1"]))
    add("ob_identifier", "identifier", ["XID tables"], asc(b["A_L1"]))
    add("ob_identifier_wide", "identifier", ["XID tables"], wide(True, b["W_L1"]))
    add("ob_integer", "integer", [], asc(b["A_INT"]))
    add("ob_align", "align", [], wide(False, 1))
    add("ob_sign", "sign", [], wide(False, 1))
    add("ob_type", "type_", ["whitespaces"], asc(b["A_TYPE"]))
    add("ob_argument", "argument", ["identifier", "integer"], asc(b["A_L2"]))
    add("ob_parameter", "parameter", ["argument"], asc(b["A_L2"]))
    add("ob_count", "count", ["parameter", "integer"], asc(b["A_L2"]))
    add("ob_precision", "precision", ["count"], asc(b["A_L2"]))
    add("ob_format_spec", "format_spec", ["align", "sign", "count", "precision", "type_"], asc(b["A_SPEC"]))
    add("ob_format_spec_wide_fill", "format_spec", ["align", "sign", "count", "precision", "type_"], wide(False, b["W_SPEC"]))
    add("ob_format", "format", ["argument", "format_spec", "whitespaces"], asc(b["A_FMT"]))
    add("ob_maybe_format", "maybe_format", ["format"], asc(b["A_FMT"]))
    add("ob_format_string", "format_string", ["maybe_format", "text"], asc(b["A_FS"]), cover=3)
    H.append(Harness("tot_integer_long", "integer(s) neither panics nor overflows on digit strings up to 21 chars", bounded="<= 21 digits",
                     fn="fmt::parsing::integer", cover_min=2))
    return H


def family(tier, seed, only=None):
    b = BOUNDS[tier]
    real = open(os.path.join(core.REPO, "impl/src/fmt/parsing.rs")).read()
    sha = hashlib.sha256(real.encode()).hexdigest()
    consts = "".join("pub(crate) const %s: usize = %d;\n" % kv for kv in b.items())
    proofs = consts + open(os.path.join(SPECS, "c03_proofs.rs")).read()
    hs = harness_list(b)
    only = only or [x for x in os.environ.get("VERIF_ONLY", "").split(",") if x]
    if only:
        hs = [h for h in hs if h.name in only]
    prog = Program("parsing_x", "byte-for-byte copy of /repo/impl/src/fmt/parsing.rs (sha256 %s) + appended spec/proof modules" % sha[:16],
                   real + APPEND, hs, meta={"proofs_file": "src/c03_proofs.rs"})
    return Family(
        "C03", [prog],
        deps={"unicode-xid": '"0.2.2"'},
        kani_flags=["-Z", "stubbing"],
        unwind=None,
        level="model_checking",
        extra_files={"src/c03_spec.rs": open(os.path.join(SPECS, "fmt_spec.rs")).read(), "src/c03_proofs.rs": proofs},
        functions_under_contract=sorted({h.fn for h in hs}),
        trusted_base=["spec functions in /verif/specs/fmt_spec.rs (written from std::fmt's documented grammar; validated against rustc in the thorough tier)"],
        assumptions=["bounded string length per function (see each obligation); unwinding assertions on",
                     "XID_Start / XID_Continue of the (single) non-ASCII character are uninterpreted booleans: the proof holds for every XID predicate",
                     "at most one non-ASCII character per input string"],
        rule="one obligation per parser function; inputs symbolic within the stated shape; callees stubbed by their specs",
        harness_timeout=1500,
        bounded_note="every obligation of C03 is bounded in string length; none is counted as proved",
        extra_cov={"parsing_rs_sha256": sha},
    )
