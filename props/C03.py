"""C03 -- format literals are interpreted exactly as std::fmt interprets them, and (same run) the
parser half of C18 (totality).

Function contracts `real_f(s) == spec_f(s)` on the REAL functions of /repo/impl/src/fmt/parsing.rs
(copied byte-for-byte into the harness crate on every run) and on `Placeholder::parse_fmt_string`
(extracted by item name from fmt/mod.rs). Leaves are verified on symbolic strings against the executable
spec; composite functions are verified with every callee (real and spec twin) replaced by one deterministic
uninterpreted function, i.e. for every behaviour of the callees. `format_string`, which Kani cannot
discharge (Vec/iterator machinery), gets a native bounded-exhaustive stand-in.

A failed function-level obligation is not yet a violation of the property (the property speaks about whole
literals): the verifier's counterexample is replayed natively, embedded into whole literals, and only a
literal on which the real parser disagrees with std's grammar is reported (VIOLATION); otherwise the
outcome is UNDECIDED (exit 2).
"""
import hashlib
import json
import os
import re
import sys
import time

from vlib import core
from vlib.core import Family, Program, Harness

SPECS = os.path.join(core.VERIF, "specs")

BOUNDS = {
    "quick": dict(W_WS=2, A_L1=4, W_L1=2, A_INT=4, A_TYPE=3, A_UF=6, W_UF=4, A_FS=2),
    "thorough": dict(W_WS=3, A_L1=6, W_L1=4, A_INT=7, A_TYPE=4, A_UF=8, W_UF=6, A_FS=3),
}
SWEEP_LEN = {"quick": 5, "thorough": 6}

APPEND = '''
// ---- appended by /verif/props/C03.py; nothing above this line is modified ------------------------------
#[path = "c03_spec.rs"]
pub(crate) mod spec;
#[cfg(kani)]
#[path = "c03_proofs.rs"]
mod proofs;
'''

PH_APPEND = '''
// ---- appended by /verif/props/C03.py ------------------------------------------------------------------------
/// view of the real `Placeholder::parse_fmt_string` for the native oracle
pub(crate) fn x_parse(s: &str) -> Vec<(Result<usize, String>, bool, &'static str)> {
    Placeholder::parse_fmt_string(s)
        .into_iter()
        .map(|p| {
            (
                match p.arg {
                    Parameter::Positional(i) => Ok(i),
                    Parameter::Named(n) => Err(n),
                },
                p.has_modifiers,
                p.trait_name,
            )
        })
        .collect()
}
#[cfg(kani)]
#[path = "c03_ph_proofs.rs"]
mod proofs;
'''


class LostAnchor(Exception):
    pass


def extract_item(src, start_re):
    """Extract one top-level item (with its preceding doc comments / attributes) by brace matching."""
    m = re.search(start_re, src, re.M)
    if not m:
        raise LostAnchor("item not found: %s" % start_re)
    lines = src[:m.start()].split("\n")
    j = len(lines) - 2
    while j >= 0 and (lines[j].startswith("///") or lines[j].startswith("#[")):
        j -= 1
    start = len("\n".join(lines[:j + 1])) + 1 if j >= 0 else 0
    i = src.index("{", m.start())
    depth = 0
    n = len(src)
    p = i
    in_str = False
    while p < n:
        c = src[p]
        if in_str:
            if c == "\\":
                p += 1
            elif c == '"':
                in_str = False
        elif c == '"':
            in_str = True
        elif c == "'":
            # char literal ('{', '\'', '\u{1F600}') vs lifetime ('a): skip the former as a whole
            mm = re.match(r"'(\\u\{[0-9a-fA-F]+\}|\\.|[^\\'])'", src[p:p + 14])
            if mm:
                p += mm.end()
                continue
        elif c == "r" and re.match(r'r#*"', src[p:p + 6]) and not (src[p - 1].isalnum() or src[p - 1] == "_"):
            hashes = len(re.match(r'r(#*)"', src[p:]).group(1))
            end = src.index('"' + "#" * hashes, p + 2 + hashes)
            p = end + 1 + hashes
            continue
        elif c == "/" and src[p:p + 2] == "//":
            p = src.index("\n", p)
            continue
        elif c == "{":
            depth += 1
        elif c == "}":
            depth -= 1
            if depth == 0:
                return src[start:p + 1]
        p += 1
    raise LostAnchor("unbalanced braces after %s" % start_re)


def placeholder_module():
    src = open(os.path.join(core.REPO, "impl/src/fmt/mod.rs")).read()
    items = [
        extract_item(src, r"^enum Parameter \{"),
        extract_item(src, r"^impl<'a> From<parsing::Argument<'a>> for Parameter \{"),
        extract_item(src, r"^struct Placeholder \{"),
        extract_item(src, r"^impl Placeholder \{"),
    ]
    body = "\n\n".join(items)
    return "use crate::parsing_x as parsing;\n\n" + body + "\n" + PH_APPEND, hashlib.sha256(body.encode()).hexdigest()


def harness_list(b):
    def asc(n):
        return "every ASCII string (all 7-bit bytes) of length <= %d" % n

    def wide(lead, t):
        return "%sone arbitrary Unicode scalar value + every ASCII tail of length <= %d" % ("<= 1 ASCII byte + " if lead else "", t)
    H = []

    def add(name, fn, stubs, bound, cover=2):
        H.append(Harness(name, "%s(s) == spec(s) [remainder pointer+length and AST]" % fn, bounded=bound,
                         fn="fmt::parsing::" + fn.split("(")[0], cover_min=cover, stubs=stubs))
    add("ob_any_char", "any_char", [], wide(False, 1))
    add("ob_take_any_char", "take_any_char", [], wide(False, 1))
    add("ob_char", "char(c) for every char c", [], wide(False, 1))
    add("ob_str2", "str(\"{{\"), str(\"x?\")", [], asc(3))
    add("ob_one_of", "one_of(\"{}\")", [], wide(False, 1))
    add("ob_whitespaces", "whitespaces", [], wide(True, b["W_WS"]))
    add("ob_text", "text", [], asc(b["A_L1"]))
    add("ob_text_wide", "text", [], wide(True, b["W_L1"]))
    add("ob_identifier", "identifier", ["XID tables"], asc(b["A_L1"]))
    add("ob_identifier_wide", "identifier", ["XID tables"], wide(True, b["W_L1"]))
    add("ob_integer", "integer", [], asc(b["A_INT"]))
    add("ob_align", "align", [], wide(False, 1))
    add("ob_sign", "sign", [], wide(False, 1))
    add("ob_type", "type_", ["whitespaces"], asc(b["A_TYPE"]))
    uf = "; callees abstracted by deterministic uninterpreted functions (every callee behaviour): "
    add("ob_argument", "argument", ["identifier", "integer"], asc(b["A_UF"]) + uf + "identifier, integer")
    add("ob_parameter", "parameter", ["argument"], asc(b["A_UF"]) + uf + "argument")
    add("ob_count", "count", ["parameter", "integer"], asc(b["A_UF"]) + uf + "parameter, integer")
    add("ob_precision", "precision", ["count"], asc(b["A_UF"]) + uf + "count")
    add("ob_format_spec", "format_spec", ["align", "sign", "count", "precision", "type_"], asc(b["A_UF"]) + uf + "align, sign, count, precision, type_")
    add("ob_format_spec_wide_fill", "format_spec", ["align", "sign", "count", "precision", "type_"], wide(False, b["W_UF"]) + uf + "align, sign, count, precision, type_")
    add("ob_format", "format", ["argument", "format_spec", "whitespaces"], asc(b["A_UF"]) + uf + "argument, format_spec, whitespaces")
    add("ob_maybe_format", "maybe_format", ["format"], asc(b["A_UF"]) + uf + "format")
    H.append(Harness("tot_integer_long", "integer(s) neither panics nor overflows on digit strings up to 21 chars", bounded="<= 21 digits",
                     fn="fmt::parsing::integer", cover_min=2))
    return H


def ph_harness_list():
    return [
        Harness("ob_parse_fmt_string_one", "Placeholder::parse_fmt_string on ONE placeholder, EVERY parser output: argument (explicit / implicit, `.*` "
                "takes the counter first), has_modifiers == any of fill/align/sign/#/0/width/precision/x?/X?, trait per type == std's rule",
                bounded="1 placeholder; parser output symbolic", fn="fmt::Placeholder::parse_fmt_string", cover_min=1,
                stubs=["parsing::format_string -> generator of arbitrary FormatString"]),
        Harness("ob_parse_fmt_string_counter", "Placeholder::parse_fmt_string on TWO placeholders: std's implicit counter (explicit arguments do not "
                "advance it, an omitted argument takes it and advances, `.*` takes it first and advances once more) for every combination of argument kind and precision kind",
                bounded="2 placeholders; counter-relevant parts of the parser output symbolic", fn="fmt::Placeholder::parse_fmt_string", cover_min=1,
                stubs=["parsing::format_string -> generator"]),
        Harness("ob_parse_fmt_string_rejected", "a literal the parser rejects yields no placeholders", bounded="one call",
                fn="fmt::Placeholder::parse_fmt_string"),
        Harness("ob_type_tables", "Type::trait_name / Type::is_trivial == documented table, all 11 types", bounded=None,
                fn="fmt::parsing::Type::trait_name, Type::is_trivial"),
    ]


def family(tier, seed, only=None):
    b = BOUNDS[tier]
    real = open(os.path.join(core.REPO, "impl/src/fmt/parsing.rs")).read()
    sha = hashlib.sha256(real.encode()).hexdigest()
    consts = "".join("pub(crate) const %s: usize = %d;\n" % kv for kv in b.items())
    ptxt = open(os.path.join(SPECS, "c03_proofs.rs")).read()
    # unwind bounds follow the string bounds of the tier (memcmp / char loops over at most that many bytes)
    ptxt = ptxt.replace("#[kani::unwind(7)]", "#[kani::unwind(%d)]" % (b["A_UF"] + 3))
    ptxt = ptxt.replace("#[kani::unwind(12)]\n    ob_format_spec_wide_fill", "#[kani::unwind(%d)]\n    ob_format_spec_wide_fill" % (b["W_UF"] + 8))
    ptxt = ptxt.replace("#[kani::unwind(9)] ob_text_wide", "#[kani::unwind(%d)] ob_text_wide" % (b["W_L1"] + 8))
    ptxt = ptxt.replace("#[kani::unwind(9)] ob_identifier_wide", "#[kani::unwind(%d)] ob_identifier_wide" % (b["W_L1"] + 8))
    ptxt = ptxt.replace("#[kani::unwind(9)] ob_text,", "#[kani::unwind(%d)] ob_text," % (b["A_L1"] + 5))
    ptxt = ptxt.replace("#[kani::unwind(9)] ob_identifier,", "#[kani::unwind(%d)] ob_identifier," % (b["A_L1"] + 5))
    ptxt = ptxt.replace("#[kani::unwind(9)] ob_integer,", "#[kani::unwind(%d)] ob_integer," % (b["A_INT"] + 5))
    proofs = consts + ptxt
    hs = harness_list(b)
    phs = ph_harness_list()
    only = only or [x for x in os.environ.get("VERIF_ONLY", "").split(",") if x]
    if only:
        hs = [h for h in hs if h.name in only]
        phs = [h for h in phs if h.name in only]
    ph_src, ph_sha = placeholder_module()
    progs = [
        Program("parsing_x", "byte-for-byte copy of /repo/impl/src/fmt/parsing.rs (sha256 %s) + appended spec/proof modules" % sha[:16],
                real + APPEND, hs, meta={"proofs_file": "src/c03_proofs.rs"}),
        Program("placeholder_x", "items Parameter, From<Argument> for Parameter, Placeholder, impl Placeholder extracted by name from "
                "/repo/impl/src/fmt/mod.rs (sha256 %s); every other item of that file is dropped" % ph_sha[:16],
                ph_src, phs, meta={"proofs_file": "src/c03_ph_proofs.rs"}),
    ]
    return Family(
        "C03", progs,
        common_src=open(os.path.join(SPECS, "c03_oracle.rs")).read(),
        deps={"unicode-xid": '"0.2.2"'},
        kani_flags=["-Z", "stubbing", "--no-assertion-reach-checks"],
        level="model_checking",
        extra_files={"src/c03_spec.rs": open(os.path.join(SPECS, "fmt_spec.rs")).read(), "src/c03_proofs.rs": proofs,
                     "src/c03_ph_proofs.rs": open(os.path.join(SPECS, "c03_ph_proofs.rs")).read(),
                     "src/bin/oracle.rs": "fn main() { std::process::exit(h_c03::common::oracle_main()) }\n"},
        functions_under_contract=sorted({h.fn for h in hs + phs}),
        trusted_base=["spec functions in /verif/specs/fmt_spec.rs (written from std::fmt's documented grammar and experiments against rustc)"],
        assumptions=["bounded string length per function (see each obligation); unwinding assertions on",
                     "XID_Start / XID_Continue of the (single) non-ASCII character are uninterpreted booleans: the proof holds for every XID predicate",
                     "at most one non-ASCII character per input string",
                     "composite functions: callees replaced by deterministic uninterpreted functions returning an arbitrary suffix and value; "
                     "assumed callee facts: determinism, result is a suffix on a char boundary, text/maybe_format/identifier/integer/... consume >= 1 byte on success",
                     "format_string itself: native bounded-exhaustive comparison only (Kani runs out of memory on Vec/iterator code)"],
        rule="one obligation per parser function; inputs symbolic within the stated shape; callees stubbed by specs / uninterpreted functions",
        harness_timeout=1200,
        bounded_note="every obligation of C03 is bounded in string length; none is counted as proved",
        extra_cov={"parsing_rs_sha256": sha, "placeholder_items_sha256": ph_sha},
    )


# ---------------------------------------------------------------------------------------------------------
def build_oracle(log):
    cd = core.crate_dir("C03")
    td = os.path.join(core.target_dir("C03"), "native")
    for attempt in (1, 2):
        # proc-macros are normally built with the dev profile: keep overflow checks and debug assertions on in the optimised oracle
        rc, out, dt = core.sh(["cargo", "build", "--release", "--offline", "--bin", "oracle", "--target-dir", td], cwd=cd, timeout=1800,
                              env=dict(core.ENV, RUSTFLAGS="-C overflow-checks=on -C debug-assertions=on"))
        if rc == 0:
            break
        log("native oracle build attempt %d failed (rc %s):\n%s" % (attempt, rc, out[-2500:]))
        build_oracle.last_error = "rc %s: %s" % (rc, out[-600:].replace("\n", " | "))
    if rc != 0:
        return None
    # unoptimised twin (cargo builds proc-macros with opt-level 0): used for the stack-depth stress only
    core.sh(["cargo", "build", "--offline", "--bin", "oracle", "--target-dir", td], cwd=cd, timeout=1800)
    return os.path.join(td, "release", "oracle")


def oracle(binpath, *args, timeout=3600):
    rc, out, dt = core.sh([binpath] + list(args), timeout=timeout)
    return rc, out, dt


def rust_debug_str_to_py(lit):
    """inverse of Rust's `{:?}` for &str (enough for the escapes Debug produces)"""
    body = lit[1:-1]
    out = []
    i = 0
    while i < len(body):
        c = body[i]
        if c != "\\":
            out.append(c)
            i += 1
            continue
        n = body[i + 1]
        if n == "u":
            j = body.index("}", i)
            out.append(chr(int(body[i + 3:j], 16)))
            i = j + 1
            continue
        out.append({"n": "\n", "r": "\r", "t": "\t", "0": "\0", "\\": "\\", '"': '"', "'": "'"}.get(n, n))
        i += 2
    return "".join(out)


def cex_inputs(fam, prog, h, log):
    """Kani counterexample -> the concrete input string(s) of the harness (printed by `report` under native playback)."""
    cd = core.crate_dir(fam.prop)
    td = core.target_dir(fam.prop)
    pretty = "%s::proofs::%s" % (prog.key, h.name)
    cmd = core.kani_cmd(fam, ["--harness", pretty, "--exact", "-Z", "concrete-playback", "--concrete-playback=print", "--target-dir", td])
    rc, out, dt = core.sh(cmd, cwd=cd, timeout=fam.harness_timeout + 600)
    blocks = re.findall(r"```\s*\n(.*?)```", out, re.S)
    seen, uniq = set(), []
    for b in blocks:
        mm = re.search(r"fn (kani_concrete_playback_\w+)", b)
        if mm and mm.group(1) not in seen:
            seen.add(mm.group(1))
            uniq.append(b)
    blocks = uniq
    if not blocks:
        return [], None, out[-3000:]
    test_src = "\n".join(blocks)
    tnames = re.findall(r"fn (kani_concrete_playback_\w+)", test_src)
    path = os.path.join(cd, prog.meta["proofs_file"])
    src = open(path).read()
    src = src.replace("// PLAYBACK-INSERTION-POINT", test_src + "\n// PLAYBACK-INSERTION-POINT", 1)
    open(path, "w").write(src)
    cmd2 = ["cargo", "kani", "playback", "-Z", "concrete-playback", "-Z", "stubbing", "--", "--exact", "--nocapture", "--test-threads", "1"] + \
           [prog.key + "::proofs::" + n for n in tnames]
    rc2, out2, dt2 = core.sh(cmd2, cwd=cd, timeout=1200, env=dict(core.ENV, CARGO_TARGET_DIR=td + "/playback"))
    ins = []
    for m in re.finditer(r'CEX-INPUT ("(?:[^"\\]|\\.)*")', out2):
        try:
            s = rust_debug_str_to_py(m.group(1))
        except Exception:
            continue
        if s not in ins and "\0" not in s:
            ins.append(s)
    return ins, test_src, out2[-3000:]


def run(tier, seed, view="C03"):
    t0 = time.time()

    def log(s):
        print("[C03] %s" % s, file=sys.stderr, flush=True)
    try:
        fam = family(tier, seed)
    except LostAnchor as e:
        print("UNDECIDED property=C03 lost extraction anchor: %s" % e)
        return 2
    # C03 and C18 are two views of ONE verifier run. The run is cached under target/ keyed by the sha256 of every input of the run
    # (copied parser source, extracted items, spec, harnesses, tier, tool flags): `./check C18` right after `./check C03` on identical
    # sources re-reads that run instead of repeating 6 minutes of CBMC. Any difference in the sources invalidates the cache.
    import pickle
    key_src = json.dumps([tier, fam.kani_flags, [p.src for p in fam.programs], sorted(fam.extra_files.items()), fam.common_src,
                          [[h.name for h in p.harnesses] for p in fam.programs], core.KANI_TOOLCHAIN], sort_keys=True)
    ckey = hashlib.sha256(key_src.encode()).hexdigest()
    cpath = os.path.join(core.target_dir("C03"), "run_cache_%s.pkl" % tier)
    cached = None
    if os.environ.get("VERIF_NO_CACHE") != "1" and os.path.exists(cpath):
        try:
            c = pickle.load(open(cpath, "rb"))
            if c["key"] == ckey and time.time() - c["at"] < 3 * 3600 and c["view"] != view:
                cached = c
        except Exception:
            cached = None
    if cached:
        log("re-using the verifier run of %s (identical sources, sha256 %s) made %.0f s ago by ./check %s" % (
            time.strftime("%H:%M:%S", time.localtime(cached["at"])), ckey[:12], time.time() - cached["at"], cached["view"]))
        results, dropped, info = cached["results"], cached["dropped"], cached["info"]
        core.write_crate(fam, fam.programs)
        fam.extra_cov["verifier_run_reused_from"] = {"check": cached["view"], "age_s": round(time.time() - cached["at"]), "inputs_sha256": ckey}
    else:
        results, dropped, info = core.run_family(fam, fam.programs, log)
        if results is not None and not dropped:
            try:
                pickle.dump({"key": ckey, "at": time.time(), "view": view, "results": results, "dropped": dropped, "info": info}, open(cpath, "wb"))
            except Exception:
                pass
    prebuilt_undecided = []
    if results is None or dropped:
        # The function-level harnesses name internal parser functions; if those were renamed / removed the harness crate does not
        # build under Kani. That alone decides nothing (lost anchor). The native oracle only needs `format_string`, `format` and
        # `parse_fmt_string`: restore the crate and let the bounded stand-in decide what it can.
        why = ((info or {}).get("build_failure", "")[-400:] if results is None else "rustc rejected %s: %s" % (
            sorted(dropped), " | ".join(b[0].splitlines()[0] for b in dropped.values())[:400]))
        prebuilt_undecided.append("function-level harnesses do not build against the current parser source (internal items changed?): %s" % why.replace("\n", " "))
        core.write_crate(fam, fam.programs)
        results, dropped, info = {}, {}, (info or {})
    by_key = {p.key: p for p in fam.programs}
    binpath = build_oracle(log)
    discharged, undecided, violations = [], list(prebuilt_undecided), []
    failed = []
    for pretty, r in results.items():
        p = by_key[r["program"]]
        h = [x for x in p.harnesses if x.name == r["harness"]][0]
        okey = "%s/%s" % (p.key, h.name)
        st = r["status"]
        if st == "SUCCESSFUL":
            if h.cover_min and (r.get("satisfied") or 0) < h.cover_min:
                undecided.append("%s: only %s of %s reachability covers satisfied" % (okey, r.get("satisfied"), h.cover_min))
            elif not r.get("total"):
                undecided.append("%s: zero obligations generated" % okey)
            else:
                discharged.append(pretty)
        elif st is None or (r.get("error") or {}).get("exit_status") in ("timeout", "out_of_memory"):
            undecided.append("%s: no verdict (%s)" % (okey, (r.get("error") or {}).get("exit_status") or "timeout / missing"))
        elif r["failed_checks"] and all("unwinding assertion" in d for d, _ in r["failed_checks"]):
            undecided.append("%s: unwinding assertion failed (bound too small)" % okey)
        elif not r["failed_checks"]:
            undecided.append("%s: verifier error %s" % (okey, r.get("error")))
        else:
            failed.append((p, h, r, okey))
    # native bounded stand-in for format_string / whole literals
    sweep = {}
    if binpath:
        rc, out, dt = oracle(binpath, "sweep", str(SWEEP_LEN[tier]), timeout=1800)
        m = re.search(r"SWEEP strings=(\d+) accepted_by_spec=(\d+) not_exactly_equal=(\d+) violations=(\d+)", out)
        if m:
            sweep = dict(strings=int(m.group(1)), accepted_by_spec=int(m.group(2)), not_exactly_equal=int(m.group(3)),
                         violations=int(m.group(4)), maxlen=SWEEP_LEN[tier], wall_s=round(dt, 1))
        mism = [ln[len("MISMATCH "):] for ln in out.splitlines() if ln.startswith("MISMATCH ")]
        for i, mm in enumerate(mism[:5]):
            prop = "C18" if mm.startswith("PANIC") else "C03"
            okey = "literal_sweep/%d" % i
            path = core.write_replay(prop, "sweep_%d" % i, {
                "property": prop, "obligation": "bounded stand-in: for every string over the grammar alphabet of <= %d symbols, "
                "std accepts s ==> derive's format_string/format/placeholders == std's" % SWEEP_LEN[tier],
                "failing_literal": mm, "how_to_replay": "./check C03 --replay <this file>"})
            violations.append((prop, okey, path, "", mm))
        if not m:
            undecided.append("native sweep produced no summary: %s" % out[-500:])
        # long literals (stack depth / time): a crash of the oracle process is a totality violation
        dbg = binpath.replace(os.sep + "release" + os.sep, os.sep + "debug" + os.sep)
        rc, out, dt = oracle(dbg if os.path.exists(dbg) else binpath, "stress", "60000" if tier == "quick" else "400000", timeout=900)
        ms = re.search(r"STRESS shapes=(\d+) repeat=(\d+) violations=(\d+)", out)
        smis = [ln[len("MISMATCH "):] for ln in out.splitlines() if ln.startswith("MISMATCH ")]
        if not ms:
            smis.append("PANIC: the parser killed the process on a long literal (stack exhaustion?) -- exit status %s, output tail: %s" % (rc, out[-300:].replace("\n", " ")))
        sweep["stress"] = {"repeat": int(ms.group(2)) if ms else None, "violations": len(smis), "wall_s": round(dt, 1)}
        for i, mm in enumerate(smis[:3]):
            prop = "C18" if mm.startswith("PANIC") else "C03"
            path = core.write_replay(prop, "stress_%d" % i, {
                "property": prop, "obligation": "bounded stand-in: literals of 12 shapes repeated up to %s times are parsed by an unoptimised build within an 8 MiB stack and 20 s" % (ms.group(2) if ms else "?"),
                "failing_literal": mm, "how_to_replay": "oracle stress <n> (built by ./check C03)"})
            violations.append((prop, "literal_stress/%d" % i, path, "", mm))
    else:
        undecided.append("native oracle did not build (%s)" % getattr(build_oracle, "last_error", "?"))
    # failed function-level obligations: replay + lift to whole literals
    for p, h, r, okey in failed[:4]:
        desc = "; ".join("%s @ %s" % (d, l) for d, l in r["failed_checks"][:3])
        log("obligation %s FAILED (%s): extracting counterexample, replaying natively and lifting to whole literals" % (okey, desc))
        ins, test_src, pbout = cex_inputs(fam, p, h, log)
        payload = {"obligation": "%s -- %s" % (okey, h.obligation), "function_under_contract": h.fn, "failed_checks": r["failed_checks"],
                   "verifier_output": r["text"][-4000:], "counterexample_inputs": ins, "counterexample_test": test_src,
                   "native_playback_output": pbout, "tier": tier}
        lifted = []
        if binpath and ins:
            rc, out, dt = oracle(binpath, "lift", *ins)
            lifted = [ln[len("MISMATCH "):] for ln in out.splitlines() if ln.startswith("MISMATCH ")]
        if lifted:
            for mm in lifted[:2]:
                prop = "C18" if mm.startswith("PANIC") else "C03"
                path = core.write_replay(prop, okey, dict(payload, property=prop, failing_literal=mm))
                violations.append((prop, okey, path, "", mm))
        elif p.key == "placeholder_x" and h.name.startswith("ob_parse_fmt_string"):
            # the placeholder-list contract IS the top-level statement (counter rule) over every parser output: no lifting needed
            path = core.write_replay("C03", okey, dict(payload, property="C03"))
            violations.append(("C03", okey, path, "no-failing-input-found", desc))
        else:
            path = core.write_replay("C03", okey + "__not_lifted", dict(payload, property="C03"))
            undecided.append("%s: function-level contract fails in the verifier (%s; inputs %s) but no whole literal was found on which the "
                             "real parser disagrees with std::fmt -- internal behaviour changed, property not shown violated; see %s" % (okey, desc, ins[:3], path))
    for p, h, r, okey in failed[4:]:
        undecided.append("%s: failed, not analysed (cap)" % okey)
    wall = time.time() - t0
    fam.extra_cov["native_sweep"] = sweep
    v03 = [v for v in violations if v[0] == "C03"]
    v18 = [v for v in violations if v[0] == "C18"]
    # a fresh verifier run writes both views; a run that re-read the cached verifier run rewrites only its own view
    if view == "C03" or not cached:
        core.write_evidence(fam, tier, seed, discharged, results, dropped, info, wall, undecided, len(v03), [])
    if view == "C18" or not cached:
        write_c18_evidence(fam, tier, seed, discharged, results, info, wall, undecided, len(v18), sweep)
    mine = [v for v in violations if v[0] == view]
    other = [v for v in violations if v[0] != view]
    for prop, okey, path, suffix, mm in mine:
        print("VIOLATION property=%s replay=%s obligation=%s %s %s" % (prop, path, okey, mm.replace("\n", " ")[:400], suffix))
    for prop, okey, path, suffix, mm in other:
        print("NOTE (belongs to %s, reported by ./check %s): %s %s" % (prop, prop, okey, mm.replace("\n", " ")[:300]))
    for u in undecided:
        print("UNDECIDED property=%s %s" % (view, u[:900]))
    n_ob = sum(len(p.harnesses) for p in fam.programs)
    print("%s %s: %d/%d function obligations discharged (all bounded), native sweep %s, %d violations, %d undecided, %.0fs" % (
        view, tier, len(discharged), n_ob, sweep, len(mine), len(undecided), wall))
    if mine:
        return 1
    if undecided:
        return 2
    return 0


def write_c18_evidence(fam, tier, seed, discharged, results, info, wall, undecided, violations, sweep):
    dset = set(discharged)
    checks = sum((r.get("total") or 0) for k, r in results.items() if k in dset)
    ev = {
        "property_id": "C18", "tier": tier, "seed": seed, "level": "model_checking",
        "coverage": {
            "evaluations": len(results), "distinct_nontrivial": len(dset),
            "rule": "parser half only: every C03 harness is instrumented by Kani with panic, arithmetic-overflow, slice/str-index and pointer checks; "
                    "a harness counts iff all of them are discharged on its bounded input domain; plus integer() on digit strings up to 21 chars and a "
                    "native sweep (catch_unwind) over all strings of <= %s alphabet symbols" % sweep.get("maxlen"),
            "samples": [{"harness": k, "cbmc_properties": results[k].get("total")} for k in sorted(dset)[:6]],
            "obligations": len(results), "discharged": len(dset), "checker_cmd": info.get("cmd", ""),
            "trusted_base": core.COMMON_TRUSTED, "cbmc_safety_and_functional_properties_discharged": checks,
            "native_sweep": sweep, "undecided": undecided, "exhaustive": False,
            "verifier_run_reused_from": fam.extra_cov.get("verifier_run_reused_from"),
            "solver_time_s": round(sum((r.get("solver_s") or 0) for r in results.values()), 3),
            "back_end": "Kani 0.68.0 -> CBMC 6.11.0 / CaDiCaL; native oracle (rustc stable, overflow checks on)",
            "not_covered": "token-stream inputs, syn-level expanders (impl/src/parsing.rs, utils.rs, error.rs ...), time bounds",
        },
        "assumptions": ["bounded string lengths as in C03", "expander half of C18 is not reachable by this technique"],
        "wall_s": round(wall, 1), "violations": violations,
    }
    with open(os.path.join(core.VERIF, "evidence", "C18.json"), "w") as f:
        json.dump(ev, f, indent=1)
