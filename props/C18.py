"""C18 (parser half) is decided by the same run as C03: the C03 harnesses carry Kani's panic / overflow / index checks.
`./check C18 <tier>` runs C03's machinery and reports the C18 view (evidence/C18.json is written by that run)."""
from props import C03


def run(tier, seed):
    return C03.run(tier, seed, view="C18")
