"""C14 -- delegating derives expose the selected field itself.

Every struct below is expanded by the REAL derive macros of /repo (deref.rs, deref_mut.rs, index.rs,
index_mut.rs, into_iterator.rs, as/mod.rs; the autoref-specialisation glue `Conv`/`ExtractRef` of src/as.rs
runs un-stubbed). Fields hold probe values that are SYMBOLIC; all fields of one struct have the SAME type,
so that delegating to a neighbour type-checks and is only visible at run time.

Contracts (from the property statement; the oracle is a field access or the field type's OWN trait method):

  non-forward Deref / AsRef        post(v, r)     := ptr::eq(r, &v.SEL)
  non-forward DerefMut / AsMut     post(v', rp..) := ptr::eq(rp, &v'.SEL) && v'.SEL == fresh && neighbours unchanged
                                                     (a fresh symbolic value was written through the result)
  forward / Index / listed type    post(v, r)     := ptr::eq(r, <FieldTy as Trait>::method(&v.SEL, ..))
       mutable form                post(v', rp..) := rp == <FieldTy as TraitMut>::method(&mut v'.SEL, ..) as ptr
                                                     && v'.SEL == {copy of old SEL with the same write applied through
                                                        FieldTy's own method} && neighbours unchanged
  AsRef<FieldTy>/AsMut<FieldTy>    (listed explicitly, also via `type InnerAlias = Inner`, or `T` for a field `T`)
                                   post := ptr::eq(r, &v.SEL)  &&  the probe's own decoy `impl AsRef<Inner> for Inner`
                                           (returns a different static object) / `impl AsMut<Inner> for Inner`
                                           (flips a field of the probe) was NOT invoked
  IntoIterator owned/ref/ref_mut   the returned iterator yields what FieldTy's own iterator yields, element by element
                                   (values for owned, element addresses for ref / ref_mut), including the final None;
                                   ref_mut: writes through the yielded references land where FieldTy's own iterator
                                   would put them; probe collection `Bag`: the returned iterator object is equal to
                                   FieldTy's own (it records the address of its source)

                                   all three forms present: the element values seen through &S, &mut S and S agree position
                                   by position (ob_iter_forms_agree)
  forward vs. not, same types      probe `Ring` has `Deref<Target = Ring>` returning a different static object, so "forwarded"
                                   and "the field itself" type-check alike and are told apart only by the address

  struct-level option inherited    `#[deref(forward)]` / `#[into_iterator(owned, ref, ref_mut)]` on the struct + the selected field carrying its OWN
                                   bare attribute + siblings `(ignore)`d: the field still forwards / gets all three forms
  generic sibling                  AsRef/AsMut on a non-generic `Inner` field next to a sibling that alone uses the struct's `T` / `'a`:
                                   its own type listed through `InnerAlias` is still the field itself (decoy not invoked)
  mutable forms                    `seen`, the value read through the result BEFORE writing, is the field's old value (non-forward) resp.
                                   what reading through the field's own deref_mut of a copy gives (forward; `Ring`'s flips `tag`)

All harnesses are loop-free (three/four `next()` calls are written out), hence complete over the field values.
"""
import random
import zlib

from vlib.core import Family, Program, Harness

COMMON = r'''
pub use core::ptr;
pub use derive_more::with_trait::{AsMut, AsRef, Deref, DerefMut, Index, IndexMut, IntoIterator};

/// Probe field type. Every delegating trait is implemented and points INTO the probe (never at its start only):
/// Deref/DerefMut/AsRef<u32>/AsMut<u32> -> `b`, AsRef<u16>/AsMut<u16> -> `c`, Index<u8> -> `a` or `b` by parity,
/// Index<bool> -> `c`.
#[derive(Clone, Copy, Debug, PartialEq, Eq)]
#[cfg_attr(kani, derive(kani::Arbitrary))]
pub struct Inner {
    pub a: u32,
    pub b: u32,
    pub c: u16,
}
pub type InnerAlias = Inner;

/// What the decoy `impl AsRef<Inner> for Inner` returns: an object that is no field of anything.
pub static DECOY: Inner = Inner { a: 0xdead, b: 0xbeef, c: 0xc0 };

impl Deref for Inner {
    type Target = u32;
    fn deref(&self) -> &u32 { &self.b }
}
impl DerefMut for Inner {
    fn deref_mut(&mut self) -> &mut u32 { &mut self.b }
}
impl AsRef<u32> for Inner {
    fn as_ref(&self) -> &u32 { &self.b }
}
impl AsMut<u32> for Inner {
    fn as_mut(&mut self) -> &mut u32 { &mut self.b }
}
impl AsRef<u16> for Inner {
    fn as_ref(&self) -> &u16 { &self.c }
}
impl AsMut<u16> for Inner {
    fn as_mut(&mut self) -> &mut u16 { &mut self.c }
}
/// DECOY impl: a forwarded `AsRef<Inner>` call is observable because it does not return `self`.
impl AsRef<Inner> for Inner {
    fn as_ref(&self) -> &Inner { &DECOY }
}
/// DECOY impl: a forwarded `AsMut<Inner>` call is observable because it changes `self.a`.
impl AsMut<Inner> for Inner {
    fn as_mut(&mut self) -> &mut Inner { self.a = !self.a; self }
}
impl Index<u8> for Inner {
    type Output = u32;
    fn index(&self, i: u8) -> &u32 { if i % 2 == 0 { &self.a } else { &self.b } }
}
impl IndexMut<u8> for Inner {
    fn index_mut(&mut self, i: u8) -> &mut u32 { if i % 2 == 0 { &mut self.a } else { &mut self.b } }
}
impl Index<bool> for Inner {
    type Output = u16;
    fn index(&self, _i: bool) -> &u16 { &self.c }
}
impl IndexMut<bool> for Inner {
    fn index_mut(&mut self, _i: bool) -> &mut u16 { &mut self.c }
}

/// Probe whose `Deref::Target` is ITSELF: forwarding and not forwarding type-check alike and differ only at run time
/// (its own `deref` returns a different, static object).
#[derive(Clone, Copy, Debug, PartialEq, Eq)]
#[cfg_attr(kani, derive(kani::Arbitrary))]
pub struct Ring {
    pub tag: u32,
    pub pad: u32,
}
pub static RING_DECOY: Ring = Ring { tag: 0x51, pad: 0 };
impl Deref for Ring {
    type Target = Ring;
    fn deref(&self) -> &Ring { &RING_DECOY }
}
/// observable as well: a forwarded `deref_mut` flips `tag` before handing out `self`
impl DerefMut for Ring {
    fn deref_mut(&mut self) -> &mut Ring { self.tag = !self.tag; self }
}

/// Probe with INHERENT `as_ref` / `as_mut` that point at `a`, while its `AsRef<u32>` / `AsMut<u32>` impls point at `b`:
/// a forwarded body written in method-call syntax would silently pick the inherent ones.
#[derive(Clone, Copy, Debug, PartialEq, Eq)]
#[cfg_attr(kani, derive(kani::Arbitrary))]
pub struct Sly {
    pub a: u32,
    pub b: u32,
}
impl Sly {
    pub fn as_ref(&self) -> &u32 { &self.a }
    pub fn as_mut(&mut self) -> &mut u32 { &mut self.a }
}
impl AsRef<u32> for Sly {
    fn as_ref(&self) -> &u32 { &self.b }
}
impl AsMut<u32> for Sly {
    fn as_mut(&mut self) -> &mut u32 { &mut self.b }
}

/// The same probe with a type parameter: a field `SlyT<T>` of `struct S<T>` "involves generics", so a listed `#[as_ref(u32)]`
/// gets the Forwarded body (the non-generic `Sly` goes through src/as.rs' `ExtractRef` instead).
#[derive(Clone, Copy, Debug, PartialEq, Eq)]
#[cfg_attr(kani, derive(kani::Arbitrary))]
pub struct SlyT<T> {
    pub a: u32,
    pub b: u32,
    pub t: T,
}
impl<T> SlyT<T> {
    pub fn as_ref(&self) -> &u32 { &self.a }
    pub fn as_mut(&mut self) -> &mut u32 { &mut self.a }
}
impl<T> AsRef<u32> for SlyT<T> {
    fn as_ref(&self) -> &u32 { &self.b }
}
impl<T> AsMut<u32> for SlyT<T> {
    fn as_mut(&mut self) -> &mut u32 { &mut self.b }
}

/// Probe collection: iterates `y` first, then `x`; its iterators record where they come from.
#[derive(Clone, Copy, Debug, PartialEq, Eq)]
#[cfg_attr(kani, derive(kani::Arbitrary))]
pub struct Bag {
    pub x: u8,
    pub y: u8,
}
#[derive(Debug, PartialEq, Eq)]
pub struct BagIntoIter { pub items: [u8; 2], pub pos: u8 }
impl Iterator for BagIntoIter {
    type Item = u8;
    fn next(&mut self) -> Option<u8> {
        let r = match self.pos { 0 => Some(self.items[0]), 1 => Some(self.items[1]), _ => None };
        if self.pos < 2 { self.pos += 1; }
        r
    }
}
impl IntoIterator for Bag {
    type Item = u8;
    type IntoIter = BagIntoIter;
    fn into_iter(self) -> BagIntoIter { BagIntoIter { items: [self.y, self.x], pos: 0 } }
}
#[derive(Debug)]
pub struct BagIter<'a> { pub src: &'a Bag, pub pos: u8 }
impl<'a> PartialEq for BagIter<'a> {
    /// same SOURCE OBJECT (address), same position
    fn eq(&self, o: &Self) -> bool { ptr::eq(self.src, o.src) && self.pos == o.pos }
}
impl<'a> Iterator for BagIter<'a> {
    type Item = &'a u8;
    fn next(&mut self) -> Option<&'a u8> {
        let r = match self.pos { 0 => Some(&self.src.y), 1 => Some(&self.src.x), _ => None };
        if self.pos < 2 { self.pos += 1; }
        r
    }
}
impl<'a> IntoIterator for &'a Bag {
    type Item = &'a u8;
    type IntoIter = BagIter<'a>;
    fn into_iter(self) -> BagIter<'a> { BagIter { src: self, pos: 0 } }
}
pub struct BagIterMut<'a> { pub y: Option<&'a mut u8>, pub x: Option<&'a mut u8> }
impl<'a> Iterator for BagIterMut<'a> {
    type Item = &'a mut u8;
    fn next(&mut self) -> Option<&'a mut u8> {
        match self.y.take() { Some(r) => Some(r), None => self.x.take() }
    }
}
impl<'a> IntoIterator for &'a mut Bag {
    type Item = &'a mut u8;
    type IntoIter = BagIterMut<'a>;
    fn into_iter(self) -> BagIterMut<'a> {
        BagIterMut { y: Some(&mut self.y), x: Some(&mut self.x) }
    }
}

/// element-wise comparison helpers of the iteration post-conditions
pub fn same_val(a: Option<u8>, b: Option<u8>) -> bool { a == b }
pub fn same_ref(a: Option<&u8>, b: Option<&u8>) -> bool {
    match (a, b) { (Some(p), Some(q)) => ptr::eq(p, q), (None, None) => true, _ => false }
}
/// address of the element a `&mut` iterator yields (null for `None`)
pub fn addr_mut(o: Option<&mut u8>) -> *const u8 {
    match o { Some(r) => r as *const u8, None => ptr::null() }
}
/// write `x` through the yielded reference, return its address (null for `None`)
pub fn put(o: Option<&mut u8>, x: u8) -> *const u8 {
    match o { Some(r) => { *r = x; r as *const u8 } None => ptr::null() }
}
'''

# ----------------------------------------------------------------------------------------------------------------
# field kinds: all fields of one struct have the same kind (equal-typed neighbours)
#   ty   : type text in the struct definition (may mention 'a / T)
#   cty  : the same type in a fn signature of the module ('x for the lifetime, T instantiated)
#   base : type of the symbolic value g<i> the field is built from (always Copy)
#   mk   : field initialiser from g<i>
#   val  : the base value currently held by field `v.<f>`
# ----------------------------------------------------------------------------------------------------------------
def K(ty, cty, base, mk="g{i}", val="v.{f}", lt=False, gen=None):
    return dict(ty=ty, cty=cty, base=base, mk=mk, val=val, lt=lt, gen=gen)


KINDS = {
    "inner": K("Inner", "Inner", "Inner"),
    "T": K("T", "Inner", "Inner", gen="Inner"),
    "ref": K("&'a Inner", "&'x Inner", "Inner", mk="&g{i}", val="*v.{f}", lt=True),
    "mutref": K("&'a mut Inner", "&'x mut Inner", "Inner", mk="&mut g{i}", val="*v.{f}", lt=True),
    "refT": K("&'a T", "&'x Inner", "Inner", mk="&g{i}", val="*v.{f}", lt=True, gen="Inner"),
    "box": K("Box<Inner>", "Box<Inner>", "Inner", mk="Box::new(g{i})", val="*v.{f}"),
    "ring": K("Ring", "Ring", "Ring"),
    "sly": K("Sly", "Sly", "Sly"),
    "slyT": K("SlyT<T>", "SlyT<u8>", "SlyT<u8>", gen="u8"),
    "arr": K("[u8; 3]", "[u8; 3]", "[u8; 3]"),
    "bag": K("Bag", "Bag", "Bag"),
    "Tarr": K("T", "[u8; 3]", "[u8; 3]", gen="[u8; 3]"),
    "Tbag": K("T", "Bag", "Bag", gen="Bag"),
    "refarr": K("&'a [u8; 3]", "&'x [u8; 3]", "[u8; 3]", mk="&g{i}", val="*v.{f}", lt=True),
    "refbag": K("&'a Bag", "&'x Bag", "Bag", mk="&g{i}", val="*v.{f}", lt=True),
    "arr32": K("[u32; 4]", "[u32; 4]", "[u32; 4]"),
    # sibling-only kinds: a field that is the ONLY user of the struct's type / lifetime parameter
    "Tu64": K("T", "u64", "u64", gen="u64"),
    "refu8": K("&'a u8", "&'x u8", "u8", mk="&g{i}", val="*v.{f}", lt=True),
}
ITER_LEN = {"[u8; 3]": 3, "Bag": 2}


def sub(t, **kw):
    for k, v in kw.items():
        t = t.replace("@" + k + "@", str(v))
    assert "@" not in t.replace("@ ", ""), "unreplaced token in template: " + t[max(0, t.find("@") - 40):t.find("@") + 40]
    return t


class Shape:
    """A struct definition `S` with n fields (equal-typed unless `fkinds` gives a kind per field: siblings of another
    type that alone use the struct's generic parameters) and helpers to talk about it in Rust."""

    def __init__(self, shape, n, kind, field_attrs, struct_attrs, derives, tys=None, fkinds=None):
        self.shape, self.n, self.kind = shape, n, kind
        k = KINDS[kind]
        self.k = k
        self.ks = [KINDS[x] for x in (fkinds or [kind] * n)]
        assert len(self.ks) == n
        self.acc = [str(i) if shape == "tuple" else "f%d" % i for i in range(n)]
        self.tys = tys or [x["ty"] for x in self.ks]
        self.field_attrs = field_attrs
        self.struct_attrs = struct_attrs
        self.derives = derives
        gp, gx, gh = [], [], []
        self.lt = any(x["lt"] for x in self.ks)
        gens = sorted({x["gen"] for x in self.ks if x["gen"]})
        assert len(gens) <= 1
        self.gen = gens[0] if gens else None
        if self.lt:
            gp.append("'a"); gx.append("'x"); gh.append("'_")
        if self.gen:
            gp.append("T"); gx.append(self.gen); gh.append(self.gen)
        self.gdecl = "<%s>" % ", ".join(gp) if gp else ""
        self.st = "S" + ("<%s>" % ", ".join(gx) if gx else "")      # in fn signatures
        self.sth = "S" + ("<%s>" % ", ".join(gh) if gh else "")     # in harness bodies
        self.fng = "<'x>" if self.lt else ""
        self.cty = k["cty"]
        self.ctyh = k["cty"].replace("'x ", "")
        self.base = k["base"]

    def decl(self):
        d = "#[derive(%s)]\n" % ", ".join(self.derives)
        d += "".join(a + "\n" for a in self.struct_attrs)
        if self.shape == "tuple":
            body = ", ".join(" ".join(self.field_attrs[i] + ["pub " + self.tys[i]]) for i in range(self.n))
            return d + "pub struct S%s(%s);" % (self.gdecl, body)
        body = "".join("    %spub %s: %s,\n" % ("".join(a + " " for a in self.field_attrs[i]), self.acc[i], self.tys[i])
                       for i in range(self.n))
        return d + "pub struct S%s {\n%s}" % (self.gdecl, body)

    def title(self):
        t = " ".join(self.decl().split())
        return t.replace("pub ", "")

    def setup(self, ind="        "):
        return "".join("%slet mut g%d: %s = kani::any(); let h%d = g%d;\n" % (ind, i, self.ks[i]["base"], i, i) for i in range(self.n))

    def ctor(self):
        es = [self.ks[i]["mk"].format(i=i) for i in range(self.n)]
        if self.shape == "tuple":
            return "S(%s)" % ", ".join(es)
        return "S { %s }" % ", ".join("%s: %s" % (self.acc[i], es[i]) for i in range(self.n))

    def old(self):
        return "&(%s,)" % ", ".join("h%d" % i for i in range(self.n))

    def oldty(self):
        return "&(%s,)" % ", ".join(x["base"] for x in self.ks)

    def cty_i(self, i):
        return self.ks[i]["cty"]

    def base_i(self, i):
        return self.ks[i]["base"]

    def val(self, i):
        return self.ks[i]["val"].format(f=self.acc[i])

    def neighbours_unchanged(self, sel):
        return " && ".join("%s == old.%d" % (self.val(j), j) for j in range(self.n) if j != sel) or "true"


def sel_attrs(attr, n, sel, mode, arg=None):
    """Attributes per field which select field `sel` for the State-based derives."""
    on = "#[%s]" % attr if not arg else "#[%s(%s)]" % (attr, arg)
    ign = "#[%s(ignore)]" % attr
    out = [[] for _ in range(n)]
    if mode == "sole":
        assert n == 1
        if arg:
            out[0] = [on]
    elif mode == "attr":
        out[sel] = [on]
    elif mode == "ign":
        out = [[ign] for _ in range(n)]
        out[sel] = [on] if arg else []
    elif mode == "attr_ign":
        out = [[ign] for _ in range(n)]
        out[sel] = [on]
    elif mode == "mixed":          # #[x] on the selected one, #[x(ignore)] on the LAST one, one bare field in between/before
        assert n == 3 and sel in (0, 1)
        out[sel] = [on]
        out[2] = [ign]
    else:
        raise ValueError(mode)
    return out


def merge(*lists):
    return [sum((l[i] for l in lists), []) for i in range(len(lists[0]))]


def selections(n, struct_level=False, arg=False):
    """(sel, mode) pairs valid for n fields. With a struct-level attribute every bare field is enabled, so all
    non-selected fields need `(ignore)`. With an argument on the selected field `ign` coincides with `attr_ign`."""
    if n == 1:
        return [(0, "attr")] if arg else [(0, "sole"), (0, "attr")]
    out = []
    for s in range(n):
        if struct_level:
            out += [(s, "ign"), (s, "attr_ign")]
        else:
            out += [(s, "attr"), (s, "attr_ign")] + ([] if arg else [(s, "ign")])
            if n == 3 and s in (0, 1):
                out.append((s, "mixed"))
    return out


MOD = '''
use crate::common::*;

@DECL@

@POSTS@
#[cfg(kani)]
mod proofs {
    use super::*;
@HARNESSES@
    // PLAYBACK-INSERTION-POINT
}
'''


def finish(key, S, posts, harness_src, hs):
    src = sub(MOD, DECL=S.decl(), POSTS="\n".join(posts), HARNESSES="\n".join(harness_src))
    return Program(key, S.title(), src, hs)


def mkkey(grp, shape, n, sel, mode, extra, kind):
    return "_".join(x for x in [grp, "%s%d" % (shape[0], n), mode, "s%d" % sel, extra, kind] if x)


# ----------------------------------------------------------------------------------------------------------------
# Deref / DerefMut
# ----------------------------------------------------------------------------------------------------------------
def prog_deref(shape, n, sel, mode, fw, kind, contract=False, control=False):
    """fw: 'no' | 'struct' (#[deref(forward)] on the struct) | 'field' (#[deref(forward)] on the selected field).
    """
    k = KINDS[kind]
    with_mut = kind in ("inner", "T", "ring") or (fw != "no" and kind in ("mutref", "box"))
    arg = "forward" if fw == "field" else None
    fa = sel_attrs("deref", n, sel, mode, arg)
    sa = ["#[deref(forward)]"] if fw == "struct" else []
    derives = ["Deref"]
    if with_mut:
        fa = merge(fa, sel_attrs("deref_mut", n, sel, mode, arg))
        sa += ["#[deref_mut(forward)]"] if fw == "struct" else []
        derives.append("DerefMut")
    S = Shape(shape, n, kind, fa, sa, derives)
    f = S.acc[sel]
    fwd = fw != "no"
    tgt = S.cty if not fwd else {"inner": "u32", "T": "u32", "ring": "Ring"}.get(kind, "Inner")
    tgth = tgt.replace("'x ", "")
    posts, hsrc, hs = [], [], []
    if not fwd:
        posts.append(sub('''/// post of the generated `<S as Deref>::deref(v)`: the result IS the selected field `@F@` (same storage).
pub fn post_deref@FNG@(v: &@ST@, r: &@TGT@) -> bool { ptr::eq(r, &v.@F@) }''', FNG=S.fng, ST=S.st, TGT=tgt, F=f))
        ob = "forall field values. ptr::eq(<S as Deref>::deref(&v), &v.%s)" % f
    else:
        posts.append(sub('''/// post of the generated forwarding `<S as Deref>::deref(v)`: exactly what the field type's own `deref` returns for `v.@F@`.
pub fn post_deref@FNG@(v: &@ST@, r: &@TGT@) -> bool { ptr::eq(r, <@CTY@ as Deref>::deref(&v.@F@)) }''',
                         FNG=S.fng, ST=S.st, TGT=tgt, F=f, CTY=S.cty))
        ob = "forall field values. ptr::eq(<S as Deref>::deref(&v), <%s as Deref>::deref(&v.%s))" % (S.ctyh, f)
    hsrc.append(sub('''    #[kani::proof]
    fn ob_deref() {
@SETUP@        let v = @CTOR@;
        let r = <@STH@ as Deref>::deref(&v);
        assert!(post_deref(&v, r), "post_deref");
    }''', SETUP=S.setup(), CTOR=S.ctor(), STH=S.sth))
    hs.append(Harness("ob_deref", ob, fn="<S as Deref>::deref"))
    if with_mut:
        if not fwd:
            posts.append(sub('''/// post of `deref_mut`: `rp` (address of the result) is the field `@F@`; `seen` (read through the result before writing) is the field's old
/// value (no forwarded call happened); the value written through it is in the field; neighbours untouched.
pub fn post_deref_mut(v: &@ST@, rp: *const @TGT@, seen: &@TGT@, fresh: &@TGT@, old: @OLDTY@) -> bool {
    ptr::eq(rp, &v.@F@) && *seen == old.@SEL@ && v.@F@ == *fresh && @NB@
}''', ST=S.st, TGT=tgt, F=f, SEL=sel, OLDTY=S.oldty(), NB=S.neighbours_unchanged(sel)))
            vref = "&v"
            ob = "forall field values, fresh. r = deref_mut(&mut v); *r = fresh  =>  ptr::eq(r, &v.%s) && v.%s == fresh && neighbours unchanged" % (f, f)
        else:
            if kind in ("inner", "T", "ring"):
                expect = "{ let mut exp = old.%d; *<%s as DerefMut>::deref_mut(&mut exp) = *fresh; %s == exp }" % (sel, S.base, S.val(sel))
                seen_ok = "*seen == { let mut c = old.%d; *<%s as DerefMut>::deref_mut(&mut c) }" % (sel, S.base)
            else:
                expect = "%s == *fresh" % S.val(sel)
                seen_ok = "*seen == old.%d" % sel
            posts.append(sub('''/// post of forwarding `deref_mut`: `rp` is what the field type's own `deref_mut` returns for `v.@F@`; `seen` (read through the result
/// before writing) is what reading through the field's own `deref_mut` of a copy gives; the write through it had the effect the
/// field's own `deref_mut` has on a copy; neighbours untouched.
pub fn post_deref_mut@FNG@(v: &mut @ST@, rp: *const @TGT@, seen: &@TGT@, fresh: &@TGT@, old: @OLDTY@) -> bool {
    let effect_ok = @EXPECT@ && @NB@;
    let seen_ok = @SEENOK@;
    let op = <@CTY@ as DerefMut>::deref_mut(&mut v.@F@) as *const @TGT@;   // last: a probe's own deref_mut may touch the field
    rp == op && seen_ok && effect_ok
}''', FNG=S.fng, ST=S.st, TGT=tgt, F=f, CTY=S.cty, OLDTY=S.oldty(), EXPECT=expect, SEENOK=seen_ok, NB=S.neighbours_unchanged(sel)))
            vref = "&mut v"
            ob = "forall field values, fresh. r = deref_mut(&mut v); *r = fresh  =>  r == <%s as DerefMut>::deref_mut(&mut v.%s) && effect == effect of the field's own deref_mut && neighbours unchanged" % (S.ctyh, f)
        hsrc.append(sub('''    #[kani::proof]
    fn ob_deref_mut() {
@SETUP@        let mut v = @CTOR@;
        let fresh: @TGTH@ = kani::any();
        let r = <@STH@ as DerefMut>::deref_mut(&mut v);
        let rp = &*r as *const @TGTH@;
        let seen = *r;
        *r = fresh;
        assert!(post_deref_mut(@VREF@, rp, &seen, &fresh, @OLD@), "post_deref_mut");
    }''', SETUP=S.setup(), CTOR=S.ctor(), STH=S.sth, TGTH=tgth, VREF=vref, OLD=S.old()))
        hs.append(Harness("ob_deref_mut", ob, fn="<S as DerefMut>::deref_mut"))
    if contract:
        assert not k["lt"]
        posts.append(sub('''/// thin wrapper carrying the contract (generated fns cannot be annotated in place)
#[cfg_attr(kani, kani::ensures(|r| post_deref(v, *r)))]
pub fn deref_contract(v: &@ST@) -> &@TGT@ { <@ST@ as Deref>::deref(v) }''', ST=S.st, TGT=tgt))
        hsrc.append(sub('''    #[kani::proof_for_contract(deref_contract)]
    fn ob_contract() {
@SETUP@        let v = @CTOR@;
        deref_contract(&v);
    }''', SETUP=S.setup(), CTOR=S.ctor()))
        hs.append(Harness("ob_contract", "#[kani::ensures(post_deref)] on deref_contract, proof_for_contract", kind="contract",
                          fn="deref_contract (thin wrapper of the generated deref)"))
    if control:
        assert n >= 2 and not fwd
        nb = S.acc[(sel + 1) % n]
        hsrc.append(sub('''    /// NEGATIVE CONTROL: claims the result is the NEIGHBOUR `@NBF@` -- must fail
    #[kani::proof]
    fn control_false_post() {
@SETUP@        let v = @CTOR@;
        let r = <@STH@ as Deref>::deref(&v);
        assert!(ptr::eq(r, &v.@NBF@), "deliberately false");
    }''', SETUP=S.setup(), CTOR=S.ctor(), STH=S.sth, NBF=nb))
        hs.append(Harness("control_false_post", "deliberately false post-condition (result is the neighbour) must FAIL", kind="negative_control"))
    return finish(mkkey("deref", shape, n, sel, mode, {"no": "", "struct": "fwdS", "field": "fwdF"}[fw], kind), S, posts, hsrc, hs)


# ----------------------------------------------------------------------------------------------------------------
# Index / IndexMut
# ----------------------------------------------------------------------------------------------------------------
def prog_index(shape, n, sel, mode, kind):
    fa = merge(sel_attrs("index", n, sel, mode), sel_attrs("index_mut", n, sel, mode))
    S = Shape(shape, n, kind, fa, [], ["Index", "IndexMut"])
    f = S.acc[sel]
    posts, hsrc, hs = [], [], []
    if kind == "arr32":
        idx = [("usize", "u32", "usize", "i < 4")]
    else:
        idx = [("u8", "u32", "u8", None), ("bool", "u16", "bool", None)]
    # NOTE: no kani::cover! / kani::assume in these harnesses. Kani's concrete playback de-duplicates generated tests by their
    # values and labels the survivor with the cover, so a failing assertion next to covers would lose its replayable test;
    # the index is therefore CONSTRUCTED inside the pre-condition (`any % 4`) instead of assumed, every class is reachable.
    for ity, out, nm, pre in idx:
        posts.append(sub('''/// post of the generated `<S as Index<@ITY@>>::index(v, i)`: exactly what the field type's own `index` returns for `v.@F@`, for every `i`.
pub fn post_index_@NM@(v: &@ST@, i: @ITY@, r: &@OUT@) -> bool { ptr::eq(r, <@CTY@ as Index<@ITY@>>::index(&v.@F@, i)) }
/// post of `index_mut`: same place as the field type's own `index_mut`; the write had the effect the field's own `index_mut` has on a copy.
pub fn post_index_mut_@NM@(v: &mut @ST@, i: @ITY@, rp: *const @OUT@, fresh: &@OUT@, old: @OLDTY@) -> bool {
    let op = <@CTY@ as IndexMut<@ITY@>>::index_mut(&mut v.@F@, i) as *const @OUT@;
    rp == op && { let mut exp = old.@SEL@; *<@BASE@ as IndexMut<@ITY@>>::index_mut(&mut exp, i) = *fresh; @VAL@ == exp } && @NB@
}''', ITY=ity, OUT=out, NM=nm, ST=S.st, CTY=S.cty, F=f, OLDTY=S.oldty(), SEL=sel, BASE=S.base, VAL=S.val(sel),
                         NB=S.neighbours_unchanged(sel)))
        if pre:
            posts.append("/// pre-condition of indexing a `[u32; 4]` (the field's own `index` panics otherwise)\npub fn pre_index_%s(i: %s) -> bool { %s }" % (nm, ity, pre))
        anyi = "kani::any::<usize>() % 4" if pre else "kani::any()"
        chk = "        assert!(pre_index_%s(i), \"pre holds by construction\");\n" % nm if pre else ""
        hsrc.append(sub('''    #[kani::proof]
    fn ob_index_@NM@() {
@SETUP@        let v = @CTOR@;
        let i: @ITY@ = @ANYI@;
@CHK@        let r = <@STH@ as Index<@ITY@>>::index(&v, i);
        assert!(post_index_@NM@(&v, i, r), "post_index");
    }
    #[kani::proof]
    fn ob_index_mut_@NM@() {
@SETUP@        let mut v = @CTOR@;
        let i: @ITY@ = @ANYI@;
@CHK@        let fresh: @OUT@ = kani::any();
        let r = <@STH@ as IndexMut<@ITY@>>::index_mut(&mut v, i);
        let rp = &*r as *const @OUT@;
        *r = fresh;
        assert!(post_index_mut_@NM@(&mut v, i, rp, &fresh, @OLD@), "post_index_mut");
    }''', NM=nm, SETUP=S.setup(), CTOR=S.ctor(), ITY=ity, OUT=out, STH=S.sth, ANYI=anyi, CHK=chk, OLD=S.old()))
        hs.append(Harness("ob_index_" + nm, "forall field values, i: %s%s. ptr::eq(<S as Index<%s>>::index(&v, i), <%s as Index<%s>>::index(&v.%s, i))"
                          % (ity, " with " + pre if pre else "", ity, S.ctyh, ity, f), fn="<S as Index<%s>>::index" % ity))
        hs.append(Harness("ob_index_mut_" + nm, "forall field values, i: %s, fresh. *index_mut(&mut v, i) = fresh  =>  same place and same effect as <%s as IndexMut<%s>>::index_mut(&mut v.%s, i); neighbours unchanged"
                          % (ity, S.ctyh, ity, f), fn="<S as IndexMut<%s>>::index_mut" % ity))
    return finish(mkkey("index", shape, n, sel, mode, "", kind), S, posts, hsrc, hs)


# ----------------------------------------------------------------------------------------------------------------
# IntoIterator
# ----------------------------------------------------------------------------------------------------------------
REFS = {            # name -> (attribute argument or None, placed on 'struct' | 'field' | None, forms checked)
    "default": (None, None, ["owned"]),
    "allS": ("owned, ref, ref_mut", "struct", ["owned", "ref", "mut"]),
    "allF": ("owned, ref, ref_mut", "field", ["owned", "ref", "mut"]),
    "refsF": ("ref, ref_mut", "field", ["ref", "mut"]),
    "refsS": ("ref, ref_mut", "struct", ["ref", "mut"]),
    "ownedF": ("owned", "field", ["owned"]),
    "ownrefS": ("owned, ref", "struct", ["owned", "ref"]),
    "ownmutF": ("owned, ref_mut", "field", ["owned", "mut"]),
    "refF": ("ref", "field", ["ref"]),
    "mutS": ("ref_mut", "struct", ["mut"]),
}


def prog_iter(shape, n, sel, mode, refs, kind):
    arg, where, forms = REFS[refs]
    k = KINDS[kind]
    if k["lt"]:
        forms = [x for x in forms if x == "owned"]       # field is `&'a Coll`: the owned form already iterates by reference
    fa = sel_attrs("into_iterator", n, sel, mode, arg if where == "field" else None)
    sa = ["#[into_iterator(%s)]" % arg] if where == "struct" else []
    S = Shape(shape, n, kind, fa, sa, ["IntoIterator"])
    f = S.acc[sel]
    L = ITER_LEN[S.base]
    posts, hsrc, hs = [], [], []
    is_bag = S.base == "Bag"
    by_ref_item = k["lt"]
    if "owned" in forms:
        same = "same_ref" if by_ref_item else "same_val"
        steps = " && ".join(["%s(it.next(), own.next())" % same] * (L + 1))
        ident = "it == own && " if is_bag else ""
        posts.append(sub('''/// post of `<S as IntoIterator>::into_iter(v)`: `it` yields what the field type's own owned iterator over (a copy of) `v.@F@` yields,
/// element by element and then `None`@IDNOTE@.
pub fn post_iter_owned@FNG@(mut it: <@ST@ as IntoIterator>::IntoIter, mut own: <@CTY@ as IntoIterator>::IntoIter) -> bool {
    @IDENT@@STEPS@
}''', F=f, FNG=S.fng, ST=S.st, CTY=S.cty, STEPS=steps, IDENT=ident,
                         IDNOTE="; the iterator objects themselves are equal" if is_bag else ""))
        hsrc.append(sub('''    #[kani::proof]
    fn ob_iter_owned() {
@SETUP@        let v = @CTOR@;
        let it = <@STH@ as IntoIterator>::into_iter(v);
        let own = <@CTYH@ as IntoIterator>::into_iter(@OWN@);
        assert!(post_iter_owned(it, own), "post_iter_owned");
    }''', SETUP=S.setup(), CTOR=S.ctor(), STH=S.sth, CTYH=S.ctyh, OWN=k["mk"].format(i=sel)))
        hs.append(Harness("ob_iter_owned", "forall field values. S::into_iter(v) yields the same %d elements in the same order (then None) as <%s as IntoIterator>::into_iter(v.%s)"
                          % (L, S.ctyh, f), fn="<S as IntoIterator>::into_iter"))
    if "ref" in forms:
        steps = " && ".join(["same_ref(it.next(), own.next())"] * (L + 1))
        ident = "it == own && " if is_bag else ""
        posts.append(sub('''/// post of `<&S as IntoIterator>::into_iter(v)`: yields the ADDRESSES the field type's own `(&v.@F@).into_iter()` yields, in order, then `None`.
pub fn post_iter_ref<'x>(v: &'x @ST@, mut it: <&'x @ST@ as IntoIterator>::IntoIter) -> bool {
    let mut own = <&@CTY@ as IntoIterator>::into_iter(&v.@F@);
    @IDENT@@STEPS@
}''', F=f, ST=S.st, CTY=S.cty, STEPS=steps, IDENT=ident))
        hsrc.append(sub('''    #[kani::proof]
    fn ob_iter_ref() {
@SETUP@        let v = @CTOR@;
        let it = <&@STH@ as IntoIterator>::into_iter(&v);
        assert!(post_iter_ref(&v, it), "post_iter_ref");
    }''', SETUP=S.setup(), CTOR=S.ctor(), STH=S.sth))
        hs.append(Harness("ob_iter_ref", "forall field values. (&v).into_iter() yields the addresses of the same %d elements in the same order (then None) as (&v.%s).into_iter()" % (L, f),
                          fn="<&S as IntoIterator>::into_iter"))
    if "mut" in forms:
        own_steps = " && ".join("addr_mut(own.next()) == seen[%d]" % j for j in range(L + 1))
        exp_steps = " ".join("put(e.next(), fresh[%d]);" % j for j in range(L))
        posts.append(sub('''/// post of `<&mut S as IntoIterator>::into_iter(v)`: `seen` = addresses it yielded (null = None) while `fresh[j]` was written through the
/// j-th one. They are the addresses `(&mut v.@F@).into_iter()` yields, in order; the field now holds what the same writes through the
/// field's own iterator produce on a copy; neighbours untouched.
pub fn post_iter_mut(v: &mut @ST@, seen: &[*const u8; @L1@], fresh: &[u8; @L@], old: @OLDTY@) -> bool {
    let same_places = { let mut own = <&mut @CTY@ as IntoIterator>::into_iter(&mut v.@F@); @OWNSTEPS@ };
    let mut exp = old.@SEL@;
    { let mut e = <&mut @BASE@ as IntoIterator>::into_iter(&mut exp); @EXPSTEPS@ }
    same_places && seen[@L@].is_null() && @VAL@ == exp && @NB@
}''', F=f, ST=S.st, CTY=S.cty, L=L, L1=L + 1, OLDTY=S.oldty(), SEL=sel, BASE=S.base, OWNSTEPS=own_steps, EXPSTEPS=exp_steps,
                         VAL=S.val(sel), NB=S.neighbours_unchanged(sel)))
        it_steps = "".join("            seen[%d] = put(it.next(), fresh[%d]);\n" % (j, j) for j in range(L))
        hsrc.append(sub('''    #[kani::proof]
    fn ob_iter_mut() {
@SETUP@        let mut v = @CTOR@;
        let fresh: [u8; @L@] = kani::any();
        let mut seen: [*const u8; @L1@] = [ptr::null(); @L1@];
        {
            let mut it = <&mut @STH@ as IntoIterator>::into_iter(&mut v);
@BAGSRC@@ITSTEPS@            seen[@L@] = addr_mut(it.next());
        }
        assert!(post_iter_mut(&mut v, &seen, &fresh, @OLD@), "post_iter_mut");
    }''', SETUP=S.setup(), CTOR=S.ctor(), STH=S.sth, L=L, L1=L + 1, ITSTEPS=it_steps, OLD=S.old(),
                        BAGSRC=""))
        hs.append(Harness("ob_iter_mut", "forall field values, fresh[..]. (&mut v).into_iter() yields the same %d places in the same order (then None) as (&mut v.%s).into_iter(); writes through them land in v.%s; neighbours unchanged" % (L, f, f),
                          fn="<&mut S as IntoIterator>::into_iter"))
    if forms == ["owned", "ref", "mut"]:
        L1 = L + 1
        conj = " && ".join("by_ref[%d] == by_mut[%d] && by_mut[%d] == owned[%d]" % (j, j, j, j) for j in range(L1))
        posts.append(sub('''/// the three forms visit the same elements in the same order: element values seen through `&S`, `&mut S` and `S` (None after the last)
pub fn post_iter_forms_agree(by_ref: &[Option<u8>; @L1@], by_mut: &[Option<u8>; @L1@], owned: &[Option<u8>; @L1@]) -> bool {
    @CONJ@
}''', L1=L1, CONJ=conj))
        def steps(var, expr):
            return "".join("            %s[%d] = %s;\n" % (var, j, expr) for j in range(L1))
        hsrc.append(sub('''    #[kani::proof]
    fn ob_iter_forms_agree() {
@SETUP@        let mut v = @CTOR@;
        let mut by_ref: [Option<u8>; @L1@] = [None; @L1@];
        let mut by_mut: [Option<u8>; @L1@] = [None; @L1@];
        let mut owned: [Option<u8>; @L1@] = [None; @L1@];
        {
            let mut it = <&@STH@ as IntoIterator>::into_iter(&v);
@RSTEPS@        }
        {
            let mut it = <&mut @STH@ as IntoIterator>::into_iter(&mut v);
@MSTEPS@        }
        {
            let mut it = <@STH@ as IntoIterator>::into_iter(v);
@OSTEPS@        }
        assert!(post_iter_forms_agree(&by_ref, &by_mut, &owned), "post_iter_forms_agree");
    }''', SETUP=S.setup(), CTOR=S.ctor(), STH=S.sth, L1=L1, RSTEPS=steps("by_ref", "it.next().map(|e| *e)"),
                        MSTEPS=steps("by_mut", "it.next().map(|e| *e)"), OSTEPS=steps("owned", "it.next()")))
        hs.append(Harness("ob_iter_forms_agree", "forall field values. the element values visited through &S, &mut S and S are the same, in the same order, all ending after %d elements" % L,
                          fn="<S / &S / &mut S as IntoIterator>::into_iter"))
    return finish(mkkey("iter", shape, n, sel, mode, refs, kind), S, posts, hsrc, hs)


# ----------------------------------------------------------------------------------------------------------------
# AsRef / AsMut
# ----------------------------------------------------------------------------------------------------------------
XNAME = {"u32": "u32", "u16": "u16", "Inner": "inner", "InnerAlias": "alias", "T": "t", "&'a Inner": "refinner",
         "&'a mut Inner": "mutinner", "Bag": "bag", "Sly": "sly", "SlyT<T>": "slyT"}
# types for which the probe `Inner` has a (non-decoy) AsRef/AsMut impl pointing into itself
FWD_TYPES = ("u32", "u16")


def prog_asref(key, shape, kind, convs, struct_conv=None, muts=True, tys=None, fkinds=None):
    """convs[i]: None (no attribute) | '' (#[as_ref]) | 'skip' | 'ignore' | 'forward' | 'Ty, Ty, ..' for field i.
    struct_conv: None | 'forward' | 'Ty, ..' (only with one field)."""
    n = len(convs)
    k = KINDS[kind]
    names = ["as_ref"] + (["as_mut"] if muts else [])
    fa = [[] for _ in range(n)]
    for nm in names:
        for i, c in enumerate(convs):
            if c is not None:
                fa[i] = fa[i] + ["#[%s]" % nm if c == "" else "#[%s(%s)]" % (nm, c)]
    sa = ["#[%s(%s)]" % (nm, struct_conv) for nm in names] if struct_conv else []
    S = Shape(shape, n, kind, fa, sa, ["AsRef"] + (["AsMut"] if muts else []), tys=tys, fkinds=fkinds)
    # which impls exist: (field, X as written, identity?)
    impls = []
    all_skip = all(c in (None, "skip", "ignore") for c in convs)
    for i, c in enumerate(convs):
        conv = c
        if struct_conv is not None:
            assert n == 1 and c is None
            conv = struct_conv
        elif c is None:
            if not all_skip:
                continue
            conv = ""
        if conv in ("skip", "ignore"):
            continue
        fty = S.tys[i]
        if conv == "":
            impls.append((i, fty, "identity", True))
        elif conv == "forward":
            for x in (("u32",) if fty.startswith("Sly") else FWD_TYPES):
                impls.append((i, x, "forwarded", True))
            if fty == "Inner":
                impls.append((i, "Inner", "forwarded", False))   # blanket forward REACHES the decoy (AsRef only: it is pure)
        else:
            for x in [t.strip() for t in conv.split(",")]:
                same = x == fty or (fty == "Inner" and x == "InnerAlias")
                impls.append((i, x, "identity" if same else "forwarded", True))
    posts, hsrc, hs = [], [], []
    for (i, x, how, mut_ok) in impls:
        f = S.acc[i]
        xn = "f%d_%s" % (i, XNAME[x])
        xc = {"T": S.ks[i]["gen"] or "T", "&'a Inner": "&'x Inner", "&'a mut Inner": "&'x mut Inner"}.get(x, x)   # concrete X in fn context
        xh = xc.replace("'x ", "")
        base_i = S.base_i(i)
        cty_i = S.cty_i(i)
        ctyh_i = cty_i.replace("'x ", "")
        if how == "identity":
            decoy = " && !ptr::eq(r, &DECOY)" if xc in ("Inner", "InnerAlias") else ""
            posts.append(sub('''/// post of the generated `<S as AsRef<@X@>>::as_ref(v)` (`@X@` IS the type of field `@F@`): the field itself, not a forwarded call.
pub fn post_as_ref_@XN@@FNG@(v: &@ST@, r: &@XC@) -> bool { ptr::eq(r, &v.@F@)@DECOY@ }''',
                             X=x, F=f, XN=xn, FNG=S.fng, ST=S.st, XC=xc, DECOY=decoy))
            ob = "forall field values. ptr::eq(<S as AsRef<%s>>::as_ref(&v), &v.%s) (identity; the probe's decoy AsRef<Inner> not invoked)" % (x, f)
        else:
            posts.append(sub('''/// post of the generated `<S as AsRef<@X@>>::as_ref(v)`: exactly what the field type's own `AsRef<@X@>` returns for `v.@F@`.
pub fn post_as_ref_@XN@@FNG@(v: &@ST@, r: &@XC@) -> bool { ptr::eq(r, <@CTY@ as AsRef<@XC@>>::as_ref(&v.@F@)) }''',
                             X=x, F=f, XN=xn, FNG=S.fng, ST=S.st, XC=xc, CTY=cty_i))
            ob = "forall field values. ptr::eq(<S as AsRef<%s>>::as_ref(&v), <%s as AsRef<%s>>::as_ref(&v.%s))" % (x, ctyh_i, x, f)
        hsrc.append(sub('''    #[kani::proof]
    fn ob_as_ref_@XN@() {
@SETUP@        let v = @CTOR@;
        let r = <@STH@ as AsRef<@XH@>>::as_ref(&v);
        assert!(post_as_ref_@XN@(&v, r), "post_as_ref");
    }''', XN=xn, SETUP=S.setup(), CTOR=S.ctor(), STH=S.sth, XH=xh))
        hs.append(Harness("ob_as_ref_" + xn, ob, fn="<S as AsRef<%s>>::as_ref" % x))
        if not (muts and mut_ok):
            continue
        if how == "identity":
            posts.append(sub('''/// post of `<S as AsMut<@X@>>::as_mut(v)`: `rp` is the field `@F@` itself; `seen` (read through the result before writing) is the field's
/// old value, i.e. the probe's decoy `AsMut<Inner>` (which flips `a`) was not invoked; the written value is in the field; neighbours untouched.
pub fn post_as_mut_@XN@@FNG@(v: &@ST@, rp: *const @XC@, seen: &@XC@, fresh: &@XC@, old: @OLDTY@) -> bool {
    ptr::eq(rp, &v.@F@) && *seen == old.@I@ && v.@F@ == *fresh && @NB@
}''', X=x, F=f, XN=xn, FNG=S.fng, ST=S.st, XC=xc, OLDTY=S.oldty(), I=i, NB=S.neighbours_unchanged(i)))
            hsrc.append(sub('''    #[kani::proof]
    fn ob_as_mut_@XN@() {
@SETUP@        let mut v = @CTOR@;
        let fresh: @XH@ = kani::any();
        let r = <@STH@ as AsMut<@XH@>>::as_mut(&mut v);
        let rp = &*r as *const @XH@;
        let seen = *r;
        *r = fresh;
        assert!(post_as_mut_@XN@(&v, rp, &seen, &fresh, @OLD@), "post_as_mut");
    }''', XN=xn, SETUP=S.setup(), CTOR=S.ctor(), STH=S.sth, XH=xh, OLD=S.old()))
            ob = "forall field values, fresh. r = <S as AsMut<%s>>::as_mut(&mut v); *r = fresh  =>  ptr::eq(r, &v.%s) && decoy not invoked && v.%s == fresh && neighbours unchanged" % (x, f, f)
        else:
            posts.append(sub('''/// post of `<S as AsMut<@X@>>::as_mut(v)`: `rp` is what the field type's own `AsMut<@X@>` returns for `v.@F@`; the write had the effect the
/// field's own `as_mut` has on a copy; neighbours untouched.
pub fn post_as_mut_@XN@@FNG@(v: &mut @ST@, rp: *const @XC@, fresh: &@XC@, old: @OLDTY@) -> bool {
    let op = <@CTY@ as AsMut<@XC@>>::as_mut(&mut v.@F@) as *const @XC@;
    rp == op && { let mut exp = old.@I@; *<@BASE@ as AsMut<@XC@>>::as_mut(&mut exp) = *fresh; @VAL@ == exp } && @NB@
}''', X=x, F=f, XN=xn, FNG=S.fng, ST=S.st, XC=xc, CTY=cty_i, OLDTY=S.oldty(), I=i, BASE=base_i, VAL=S.val(i),
                             NB=S.neighbours_unchanged(i)))
            hsrc.append(sub('''    #[kani::proof]
    fn ob_as_mut_@XN@() {
@SETUP@        let mut v = @CTOR@;
        let fresh: @XH@ = kani::any();
        let r = <@STH@ as AsMut<@XH@>>::as_mut(&mut v);
        let rp = &*r as *const @XH@;
        *r = fresh;
        assert!(post_as_mut_@XN@(&mut v, rp, &fresh, @OLD@), "post_as_mut");
    }''', XN=xn, SETUP=S.setup(), CTOR=S.ctor(), STH=S.sth, XH=xh, OLD=S.old()))
            ob = "forall field values, fresh. *<S as AsMut<%s>>::as_mut(&mut v) = fresh  =>  same place and same effect as <%s as AsMut<%s>>::as_mut(&mut v.%s); neighbours unchanged" % (x, ctyh_i, x, f)
        hs.append(Harness("ob_as_mut_" + xn, ob, fn="<S as AsMut<%s>>::as_mut" % x))
    return finish(key, S, posts, hsrc, hs)


def asref_sibling_programs(full):
    """The struct's type / lifetime parameter is used ONLY by a sibling field; the selected field is the non-generic `Inner`.
    Its own type listed through the alias must still go through the autoref specialisation (identity), listed directly it is
    Direct, other listed types are forwarded."""
    P = []
    specs = [
        ("asref_t2_sibT_ty_u32_alias", "tuple", ["inner", "Tu64"], ["u32, InnerAlias", None]),
        ("asref_n3_sibLt_ty_alias", "named", ["refu8", "inner", "inner"], [None, "InnerAlias", None]),
    ]
    if full:
        specs += [
            ("asref_n2_sibT_ty_alias", "named", ["Tu64", "inner"], [None, "InnerAlias"]),
            ("asref_t3_sibT_ty_u16_alias", "tuple", ["inner", "inner", "Tu64"], [None, "u16, InnerAlias", None]),
            ("asref_t2_sibLt_ty_u32_alias", "tuple", ["inner", "refu8"], ["u32, InnerAlias", None]),
            ("asref_n2_sibT_ty_inner", "named", ["inner", "Tu64"], ["u16, Inner", None]),
            ("asref_t2_sibLt_ty_inner", "tuple", ["refu8", "inner"], [None, "Inner"]),
            ("asref_t2_sibT_plain", "tuple", ["Tu64", "inner"], [None, ""]),
            ("asref_n2_sibLt_fwd", "named", ["inner", "refu8"], ["forward", None]),
            ("asref_t3_sibT_skip", "tuple", ["Tu64", "inner", "inner"], ["skip", None, "skip"]),
        ]
    for key, shape, fk, convs in specs:
        P.append(prog_asref(key, shape, "inner", convs, fkinds=fk))
    return P


def conv_tag(conv):
    if conv == "":
        return "plain"
    if conv == "forward":
        return "fwd"
    return "ty_" + "_".join(XNAME[t.strip()] for t in conv.split(","))


def asref_sel(shape, n, sel, mode, conv, kind="inner", muts=True):
    """One selected field carrying conversion `conv` ('' = plain), selected by `mode`:
       sole | attr | skip | ignore (others carry #[as_ref(skip)] / (ignore); only for conv == '')."""
    if mode == "sole":
        convs = [None]
    elif mode == "attr":
        convs = [None] * n
        convs[sel] = conv
    else:
        convs = [mode] * n
        convs[sel] = None
    tag = conv_tag(conv)
    key = mkkey("asref", shape, n, sel, mode, tag, kind)
    return prog_asref(key, shape, kind, convs, muts=muts)


def asref_struct(shape, conv, kind="inner", muts=True):
    return prog_asref(mkkey("asref", shape, 1, 0, "structlvl", conv_tag(conv), kind), shape, kind, [None], struct_conv=conv, muts=muts)


# ----------------------------------------------------------------------------------------------------------------
# the family
# ----------------------------------------------------------------------------------------------------------------
# `#[deref(forward)]` on the STRUCT together with a plain `#[deref]` on one of several fields is rejected by the macro
# ("derive(Deref) only works when forwarding to a single field"): a struct-level attribute enables every bare field. The docs
# only show `#[deref(ignore)]` on the other fields for this case (tests/deref.rs NumRef3), so these programs are NOT part of
# the family by default; set to True to generate them (they are then reported as `<key>/expansion`).
INCLUDE_STRUCT_ATTR_PLUS_FIELD_ATTR = False


def quick_programs():
    P = []
    if INCLUDE_STRUCT_ATTR_PLUS_FIELD_ATTR:
        P.append(prog_deref("tuple", 2, 1, "attr", "struct", "inner"))
        P.append(prog_iter("named", 2, 0, "attr", "allS", "arr"))
    # Deref / DerefMut
    P.append(prog_deref("tuple", 2, 1, "attr", "no", "inner", contract=True, control=True))
    P.append(prog_deref("tuple", 1, 0, "sole", "no", "inner"))
    P.append(prog_deref("named", 2, 0, "attr", "no", "inner"))
    P.append(prog_deref("named", 3, 1, "ign", "no", "inner"))
    P.append(prog_deref("tuple", 3, 0, "mixed", "no", "inner"))
    P.append(prog_deref("named", 3, 2, "attr_ign", "no", "inner"))
    P.append(prog_deref("tuple", 1, 0, "sole", "struct", "inner"))
    P.append(prog_deref("named", 2, 1, "attr", "field", "inner"))
    P.append(prog_deref("tuple", 3, 0, "ign", "struct", "inner"))
    P.append(prog_deref("tuple", 2, 1, "attr", "no", "T"))
    P.append(prog_deref("named", 2, 0, "attr", "field", "ref"))
    P.append(prog_deref("tuple", 2, 1, "ign", "struct", "box"))
    P.append(prog_deref("named", 2, 1, "attr", "no", "ring"))
    P.append(prog_deref("tuple", 2, 0, "ign", "struct", "ring"))
    P.append(prog_deref("tuple", 1, 0, "attr", "field", "ring"))
    # struct-level option + the selected field ALSO carries its own bare attribute + siblings ignored: the field must inherit `forward`
    P.append(prog_deref("named", 2, 1, "attr_ign", "struct", "ring"))
    P.append(prog_deref("tuple", 1, 0, "attr", "struct", "ring"))
    P.append(prog_deref("tuple", 3, 2, "attr_ign", "struct", "inner"))
    P.append(prog_deref("named", 2, 0, "attr_ign", "struct", "box"))
    # NON-forward Deref on a reference-typed field: Target is the reference type itself, r: &&Inner is the field's own storage
    P.append(prog_deref("tuple", 1, 0, "sole", "no", "ref"))
    P.append(prog_deref("named", 2, 1, "attr", "no", "mutref"))
    # Index / IndexMut
    P.append(prog_index("tuple", 1, 0, "sole", "inner"))
    P.append(prog_index("named", 2, 0, "attr", "inner"))
    P.append(prog_index("tuple", 3, 1, "ign", "inner"))
    P.append(prog_index("named", 3, 2, "attr", "inner"))
    P.append(prog_index("tuple", 2, 1, "attr", "T"))
    # IntoIterator
    P.append(prog_iter("tuple", 1, 0, "sole", "default", "arr"))
    P.append(prog_iter("tuple", 1, 0, "sole", "allS", "arr"))
    P.append(prog_iter("named", 2, 1, "attr", "allF", "arr"))
    P.append(prog_iter("tuple", 3, 0, "ign", "allS", "bag"))
    P.append(prog_iter("named", 3, 2, "attr", "refsF", "bag"))
    P.append(prog_iter("tuple", 2, 0, "attr", "allF", "Tarr"))
    P.append(prog_iter("named", 2, 1, "attr_ign", "allS", "bag"))     # struct-level list + bare #[into_iterator] on the field: list inherited
    P.append(prog_iter("tuple", 1, 0, "attr", "refsS", "arr"))
    # AsRef / AsMut
    P.append(asref_sel("tuple", 1, 0, "sole", ""))
    P.append(asref_sel("named", 2, 1, "attr", ""))
    P.append(asref_sel("tuple", 3, 0, "skip", ""))
    P.append(asref_sel("named", 3, 2, "ignore", ""))
    P.append(asref_struct("tuple", "forward"))
    P.append(asref_sel("named", 2, 0, "attr", "forward"))
    P.append(asref_struct("tuple", "u32, u16"))
    P.append(asref_struct("named", "u32, Inner"))
    P.append(asref_struct("tuple", "u32, InnerAlias"))
    P.append(asref_sel("named", 2, 1, "attr", "u16, InnerAlias"))
    P.append(asref_sel("tuple", 3, 1, "attr", "Inner"))
    P.append(prog_asref("asref_t3_two_lists_inner", "tuple", "inner", ["u32, InnerAlias", "u16", None]))
    P.append(asref_sel("tuple", 2, 1, "attr", "T", kind="T"))
    P.append(asref_sel("named", 2, 0, "attr", "u32", kind="T"))
    P += asref_sibling_programs(False)
    # a skipped / ignored field BEFORE the kept one of the same type (tuple: the kept field's index is its position in the struct)
    P.append(asref_sel("tuple", 2, 1, "skip", ""))
    P.append(asref_sel("tuple", 3, 2, "ignore", ""))
    P.append(asref_sel("named", 2, 1, "skip", ""))
    # forwarded bodies must call the TRAIT method of the field type, not an inherent method of the same name
    P.append(asref_sel("tuple", 2, 1, "attr", "u32", kind="sly"))
    P.append(asref_struct("named", "forward", kind="sly"))
    P.append(asref_sel("named", 2, 0, "attr", "u32", kind="slyT"))
    P.append(asref_struct("tuple", "u32", kind="slyT"))
    return P


def thorough_programs(seed):
    P = []
    rnd = random.Random(seed)
    shapes = ("tuple", "named")
    # --- Deref/DerefMut: the whole selection product on the probe type, with and without forwarding
    first = True
    for shape in shapes:
        for n in (1, 2, 3):
            for sel, mode in selections(n):
                P.append(prog_deref(shape, n, sel, mode, "no", "inner", contract=first and n == 2, control=first and n == 2))
                if n == 2:
                    first = False
            for sel, mode in selections(n, arg=True):
                P.append(prog_deref(shape, n, sel, mode, "field", "inner"))
            for sel, mode in selections(n, struct_level=True):
                P.append(prog_deref(shape, n, sel, mode, "struct", "inner"))
    # other field kinds (generic, lifetime, Box): n = 2 and 3, alternating shapes, every selected position
    for kind in ("T", "ring", "ref", "mutref", "refT", "box"):
        for n in (1, 2, 3):
            for j, (sel, mode) in enumerate(selections(n)):
                shape = shapes[(j + n) % 2]
                if kind in ("T", "ring") or mode in ("attr", "sole"):
                    P.append(prog_deref(shape, n, sel, mode, "no", kind))
            for j, (sel, mode) in enumerate(selections(n, arg=True)):
                if mode in ("attr",) or kind in ("T", "ring"):
                    P.append(prog_deref(shapes[(j + n + 1) % 2], n, sel, mode, "field", kind))
            for j, (sel, mode) in enumerate(selections(n, struct_level=True)):
                if mode in ("ign", "sole") or kind in ("T", "ring"):
                    P.append(prog_deref(shapes[(j + n) % 2], n, sel, mode, "struct", kind))
    # --- Index/IndexMut
    for shape in shapes:
        for n in (1, 2, 3):
            for sel, mode in selections(n):
                P.append(prog_index(shape, n, sel, mode, "inner"))
    for kind in ("T", "arr32"):
        for n in (1, 2, 3):
            for j, (sel, mode) in enumerate(selections(n)):
                if mode in ("attr", "sole", "ign"):
                    P.append(prog_index(shapes[(j + n) % 2], n, sel, mode, kind))
    # --- IntoIterator: selection product x where the owned/ref/ref_mut list is written; probe kinds alternate
    kinds = ("arr", "bag", "Tarr", "Tbag")
    c = 0
    for shape in shapes:
        for n in (1, 2, 3):
            for sel, mode in selections(n):
                P.append(prog_iter(shape, n, sel, mode, "default", kinds[c % 4])); c += 1
            for refs in ("allF", "refsF", "ownedF", "ownmutF", "refF"):
                for sel, mode in selections(n, arg=True):
                    P.append(prog_iter(shape, n, sel, mode, refs, kinds[c % 4])); c += 1
            for refs in ("allS", "refsS", "ownrefS", "mutS"):
                for sel, mode in selections(n, struct_level=True):
                    P.append(prog_iter(shape, n, sel, mode, refs, kinds[c % 4])); c += 1
    for kind in ("refarr", "refbag"):
        for n in (1, 2, 3):
            for j, (sel, mode) in enumerate(selections(n)):
                if mode in ("attr", "sole"):
                    P.append(prog_iter(shapes[(j + n) % 2], n, sel, mode, "default", kind))
    # --- AsRef/AsMut
    for shape in shapes:
        P.append(asref_sel(shape, 1, 0, "sole", ""))
        for conv in ("forward", "u32", "u32, u16", "Inner", "InnerAlias", "u32, Inner", "u16, InnerAlias", "InnerAlias, u32, u16"):
            P.append(asref_struct(shape, conv))
        for n in (1, 2, 3):
            for sel in range(n):
                for conv in ("", "forward", "u32", "u32, u16", "Inner", "InnerAlias", "u16, Inner", "u32, InnerAlias"):
                    P.append(asref_sel(shape, n, sel, "attr", conv))
                if n > 1:
                    P.append(asref_sel(shape, n, sel, "skip", ""))
                    P.append(asref_sel(shape, n, sel, "ignore", ""))
        # generic field type T: plain, forward, listed as `T` (direct), listed as a type T's value implements (forwarded)
        for n in (1, 2, 3):
            for sel in range(n):
                # (`T` together with a concrete type is rejected by rustc's coherence check -- E0119, not the macro's doing)
                for conv in ("", "forward", "T", "u32", "u32, u16"):
                    P.append(asref_sel(shape, n, sel, "attr", conv, kind="T"))
        P.append(asref_struct(shape, "T", kind="T"))
        P.append(asref_struct(shape, "u32, u16", kind="T"))
        P.append(asref_struct(shape, "forward", kind="T"))
        # lifetime-parametrised field type `&'a mut Inner`: plain (direct) and listed type (forwarded through std's blanket impl)
        for n in (1, 2):
            for sel in range(n):
                P.append(asref_sel(shape, n, sel, "attr", "u32", kind="mutref"))
                P.append(asref_sel(shape, n, sel, "attr", "u16", kind="ref", muts=False))
                P.append(asref_sel(shape, n, sel, "attr", "", kind="ref", muts=False))
    # several selected fields of EQUAL type with different listed types
    P.append(prog_asref("asref_t3_two_lists_inner", "tuple", "inner", ["u32, InnerAlias", "u16", None]))
    P.append(prog_asref("asref_n3_two_lists_inner", "named", "inner", [None, "u16", "Inner, u32"]))
    P.append(prog_asref("asref_t2_two_lists_swapped_inner", "tuple", "inner", ["u16", "u32"]))
    P.append(prog_asref("asref_n3_three_lists_inner", "named", "inner", ["u16", "InnerAlias", "u32"]))
    P.append(prog_asref("asref_t2_two_lists_T", "tuple", "T", ["u16", "u32"]))
    P += asref_sibling_programs(True)
    for shape in shapes:
        P.append(asref_struct(shape, "forward", kind="sly"))
        P.append(asref_struct(shape, "u32", kind="sly"))
        for n in (2, 3):
            for sel in range(n):
                P.append(asref_sel(shape, n, sel, "attr", "u32", kind="sly"))
                P.append(asref_sel(shape, n, sel, "attr", "forward", kind="sly"))
                P.append(asref_sel(shape, n, sel, "attr", "u32", kind="slyT"))
        P.append(asref_struct(shape, "u32", kind="slyT"))
        P.append(asref_struct(shape, "forward", kind="slyT"))
    # random tail: extra configurations drawn with the seed (field kind x shape x selection)
    seen = {p.key for p in P}
    tail = []
    for _ in range(200):
        grp = rnd.choice(("deref", "index", "iter"))
        shape = rnd.choice(shapes)
        n = rnd.choice((2, 3))
        if grp == "deref":
            fw = rnd.choice(("no", "field", "struct"))
            kind = rnd.choice(("inner", "T", "ring", "ref", "mutref", "refT", "box"))
            sel, mode = rnd.choice(selections(n, struct_level=fw == "struct", arg=fw == "field"))
            p = prog_deref(shape, n, sel, mode, fw, kind)
        elif grp == "index":
            sel, mode = rnd.choice(selections(n))
            p = prog_index(shape, n, sel, mode, rnd.choice(("inner", "T", "arr32")))
        else:
            refs = rnd.choice(sorted(REFS))
            where = REFS[refs][1]
            sel, mode = rnd.choice(selections(n, struct_level=where == "struct", arg=where == "field"))
            p = prog_iter(shape, n, sel, mode, refs, rnd.choice(("arr", "bag", "Tarr", "Tbag", "refarr", "refbag")))
        if p.key not in seen:
            seen.add(p.key)
            tail.append(p)
        if len(tail) >= 24:
            break
    return P + tail


def family(tier, seed):
    progs = quick_programs() if tier == "quick" else thorough_programs(seed)
    keys = [p.key for p in progs]
    assert len(keys) == len(set(keys)), "duplicate program keys: %s" % sorted(k for k in keys if keys.count(k) > 1)
    return Family(
        "C14", progs, common_src=COMMON,
        kani_flags=["-Z", "function-contracts"],
        level="proof",
        functions_under_contract=[
            "generated <S as Deref>::deref / <S as DerefMut>::deref_mut (impl/src/deref.rs, deref_mut.rs)",
            "generated <S as Index<I>>::index / <S as IndexMut<I>>::index_mut (impl/src/index.rs, index_mut.rs)",
            "generated <S as IntoIterator>::into_iter, <&S ..>, <&mut S ..> (impl/src/into_iterator.rs)",
            "generated <S as AsRef<X>>::as_ref / <S as AsMut<X>>::as_mut, Direct / Forwarded / Specialized bodies (impl/src/as/mod.rs)",
            "derive_more::__private::{Conv, ExtractRef::__extract_ref} (src/as.rs), executed un-stubbed inside the Specialized bodies",
            "single enabled field selection State::assert_single_enabled_field / enabled_fields* (impl/src/utils.rs) -- at expansion time, observed through the expansion",
        ],
        trusted_base=[
            "core::ptr::eq as the definition of 'same storage'; all compared objects are non-zero-sized",
            "the probe impls in common.rs (Inner, Bag) and std's impls for [T; N], &T, &mut T, Box<T> are the 'field's own implementation'",
        ],
        assumptions=[
            "harnesses are loop-free: iteration is checked by writing out len+1 calls of next() (len = 3 for [u8; 3], 2 for the probe Bag)",
            "ob_index_usize / ob_index_mut_usize (field [u32; 4]): the index is constructed as any::<usize>() % 4, i.e. inside the pre-condition i < 4 of the field's own index; no kani::assume anywhere",
            "fields of one struct are built from distinct locals, so distinct fields never alias",
        ],
        rule="one program per struct definition (shape x number of fields 1..3 x selected field x way of selecting it x forward / type list / "
             "owned-ref-ref_mut list x field type kind); per program one obligation per generated trait method, quantified over all field "
             "values (and all index values / written values); distinct = harnesses discharged",
        harness_timeout=600,
    )
