"""C08 -- From, Into and Constructor preserve field order and invert each other.

Contracts (the real macros of /repo expand every type definition below; the predicates are emitted as plain Rust
`pub fn post_*` next to the type definition and discharged by Kani for ALL field values):

    post_from(a, r)        := for every declared field i:  r.f_i == a.i                     (struct / the variant's own pattern)
    post_new(a.., r)       := the same for `T::new(a0, a1, ..)`
    post_into_owned(v, t)  := for every j:  t.j == v.f_{i_j}      (i_0 < i_1 < .. the NON-SKIPPED fields, declaration order)
    post_into_ref(v, t)    := for every j:  core::ptr::eq(t.j, &v.f_{i_j})
    post_into_mut(..)      := the same addresses, and a write through t.j is visible in v.f_{i_j} and nowhere else
    round trip             := T::from(Tuple::from(v)) == v  and  Tuple::from(T::from(a)) == a   (both derived)
    typed / forward        := the field value is `<FieldTy as From<Listed>>::from(a.i)`, observed through probe types that
                              record the source value, the impl that ran (`via`) and the number of hops (`hops == 1`)

The expected *set* of impls is computed by this generator from the documented rules (doc/from.md, doc/into.md): presence of an
impl is witnessed by a harness calling exactly that impl (`<Target as From<Source>>::from`), absence is a trait-resolution fact
and is emitted as `static_assertions::assert_not_impl_any!` in the program module (type-level obligation discharged by rustc
when the harness crate is built, NOT a verifier obligation; a failing one is reported by the core as `<key>/expansion`).
"""
import itertools

from vlib.core import Family, Program, Harness

COMMON = r'''
pub use core::ptr;
pub use core::sync::atomic::{AtomicU8, Ordering};
pub use derive_more::{Constructor, From, Into};

/// Source probe. `K` makes the probes of different field positions different *types*; the payload is symbolic.
#[derive(Clone, Copy, Debug, PartialEq, Eq)]
#[repr(transparent)]
pub struct Seed<const K: u8>(pub u32);

/// Second source probe (a different listed type for the same field).
#[derive(Clone, Copy, Debug, PartialEq, Eq)]
pub struct Seed2<const K: u8>(pub u16);

/// Conversion target probe: records the source value, how many `From::from` calls produced it and which impl ran.
#[derive(Clone, Copy, Debug, PartialEq, Eq)]
pub struct Conv<const K: u8> {
    pub src: u32,
    pub hops: u8,
    pub via: u8,
}
impl<const K: u8> From<Seed<K>> for Conv<K> {
    fn from(s: Seed<K>) -> Self { Conv { src: s.0, hops: 1, via: 1 } }
}
impl<const K: u8> From<Seed2<K>> for Conv<K> {
    fn from(s: Seed2<K>) -> Self { Conv { src: s.0 as u32, hops: 1, via: 2 } }
}

/// Second-stage target: reachable from `Seed` directly (1 hop) or from `Conv` (adds one hop to whatever `Conv` carried).
#[derive(Clone, Copy, Debug, PartialEq, Eq)]
pub struct Conv2<const K: u8> {
    pub src: u32,
    pub hops: u8,
    pub via: u8,
}
impl<const K: u8> From<Seed<K>> for Conv2<K> {
    fn from(s: Seed<K>) -> Self { Conv2 { src: s.0, hops: 1, via: 1 } }
}
impl<const K: u8> From<Conv<K>> for Conv2<K> {
    fn from(c: Conv<K>) -> Self { Conv2 { src: c.src, hops: c.hops.wrapping_add(1), via: 3 } }
}

/// Reference-conversion target: same layout as `Seed` (both `repr(transparent)` over u32); the `From` impls between
/// references re-type the SAME address and count their invocations in `REF_HOPS`.
#[derive(Debug, PartialEq, Eq)]
#[repr(transparent)]
pub struct Tr<const K: u8>(pub u32);
pub static REF_HOPS: AtomicU8 = AtomicU8::new(0);
pub fn ref_hops_reset() { REF_HOPS.store(0, Ordering::Relaxed) }
pub fn ref_hops() -> u8 { REF_HOPS.load(Ordering::Relaxed) }
impl<'a, const K: u8> From<&'a Seed<K>> for &'a Tr<K> {
    fn from(s: &'a Seed<K>) -> Self {
        REF_HOPS.store(REF_HOPS.load(Ordering::Relaxed).wrapping_add(1), Ordering::Relaxed);
        unsafe { &*(s as *const Seed<K> as *const Tr<K>) }
    }
}
impl<'a, const K: u8> From<&'a mut Seed<K>> for &'a mut Tr<K> {
    fn from(s: &'a mut Seed<K>) -> Self {
        REF_HOPS.store(REF_HOPS.load(Ordering::Relaxed).wrapping_add(1), Ordering::Relaxed);
        unsafe { &mut *(s as *mut Seed<K> as *mut Tr<K>) }
    }
}

/// A field type that is convertible from / into a TUPLE (and from `()`): the listed type of a single-field struct may be a tuple type.
#[derive(Clone, Copy, Debug, PartialEq, Eq)]
pub struct PairConv {
    pub a: u32,
    pub b: u16,
    pub hops: u8,
}
impl From<(Seed<0>, Seed2<0>)> for PairConv {
    fn from(s: (Seed<0>, Seed2<0>)) -> Self { PairConv { a: (s.0).0, b: (s.1).0, hops: 1 } }
}
impl From<()> for PairConv {
    fn from(_: ()) -> Self { PairConv { a: 0, b: 0, hops: 1 } }
}
impl From<PairConv> for (Conv<0>, Seed2<0>) {
    fn from(p: PairConv) -> Self { (Conv { src: p.a, hops: p.hops.wrapping_add(1), via: 4 }, Seed2(p.b)) }
}

/// The listed type of a single-field struct may be a 1-TUPLE `(T,)`: it is the whole type to convert, not a list of one per-field
/// type. `via` tells the two apart: 5 = the 1-tuple impl ran, 6 / 1 = the bare-element impl ran.
impl<const K: u8> From<(Seed<K>,)> for Conv<K> {
    fn from(s: (Seed<K>,)) -> Self { Conv { src: (s.0).0, hops: 1, via: 5 } }
}
/// Field type converting both into `(Conv<0>,)` and into `Conv<0>`.
#[derive(Clone, Copy, Debug, PartialEq, Eq)]
pub struct One(pub u32);
impl From<One> for (Conv<0>,) {
    fn from(o: One) -> Self { (Conv { src: o.0, hops: 1, via: 5 },) }
}
impl From<One> for Conv<0> {
    fn from(o: One) -> Self { Conv { src: o.0, hops: 1, via: 6 } }
}
/// Field type lending both a `&(Lab,)` and a `&Lab` (two different places, so the address tells which impl ran).
#[derive(Clone, Copy, Debug, PartialEq, Eq)]
pub struct Lab(pub u32);
#[derive(Clone, Copy, Debug, PartialEq, Eq)]
pub struct OneRef {
    pub wrapped: (Lab,),
    pub bare: Lab,
}
impl<'a> From<&'a OneRef> for &'a (Lab,) {
    fn from(t: &'a OneRef) -> Self { REF_HOPS.store(REF_HOPS.load(Ordering::Relaxed).wrapping_add(1), Ordering::Relaxed); &t.wrapped }
}
impl<'a> From<&'a OneRef> for &'a Lab {
    fn from(t: &'a OneRef) -> Self { REF_HOPS.store(REF_HOPS.load(Ordering::Relaxed).wrapping_add(1), Ordering::Relaxed); &t.bare }
}
impl<'a> From<&'a mut OneRef> for &'a mut (Lab,) {
    fn from(t: &'a mut OneRef) -> Self { REF_HOPS.store(REF_HOPS.load(Ordering::Relaxed).wrapping_add(1), Ordering::Relaxed); &mut t.wrapped }
}
impl<'a> From<&'a mut OneRef> for &'a mut Lab {
    fn from(t: &'a mut OneRef) -> Self { REF_HOPS.store(REF_HOPS.load(Ordering::Relaxed).wrapping_add(1), Ordering::Relaxed); &mut t.bare }
}

/// `Maybe::<T, _>::new(u).conv()` is `Some(T::from(u))` if `T: From<U>` holds and `None` otherwise (the inherent method is
/// preferred over the trait method whenever its bounds hold; resolved at the concrete call site). It turns presence / absence
/// of ONE impl into a run-time value, so a wrong impl set that still compiles becomes a counterexample the verifier can replay.
pub struct Maybe<T, U>(pub Option<U>, pub core::marker::PhantomData<T>);
impl<T, U> Maybe<T, U> {
    pub fn new(u: U) -> Self { Maybe(Some(u), core::marker::PhantomData) }
}
pub trait MaybeFallback<T> {
    fn conv(&mut self) -> Option<T> { None }
}
impl<T, U> MaybeFallback<T> for Maybe<T, U> {}
impl<T: From<U>, U> Maybe<T, U> {
    pub fn conv(&mut self) -> Option<T> { self.0.take().map(T::from) }
}

/// A source type that converts into `Conv<K>` ONLY through a hand-written `Into` impl: `Conv<K>: From<OnlyInto<K>>` does not hold, so
/// `#[from(forward)]` (documented bound: `FieldTy: From<Source>`, conversion by `From::from`) must NOT accept it. `hops: 0` = no From ran.
#[derive(Clone, Copy, Debug, PartialEq, Eq)]
pub struct OnlyInto<const K: u8>(pub u32);
#[allow(clippy::from_over_into)]
impl<const K: u8> Into<Conv<K>> for OnlyInto<K> {
    fn into(self) -> Conv<K> { Conv { src: self.0, hops: 0, via: 9 } }
}

/// Wrapper for generic fields of `Into` programs (the orphan rule forbids `impl<T> From<S<T>> for T`).
#[derive(Clone, Copy, Debug, PartialEq, Eq)]
pub struct Wr<T>(pub T);

/// address of any sized value as an untyped pointer (never used on zero-sized values)
pub fn addr<T>(r: &T) -> *const u8 { r as *const T as *const u8 }
'''

# Programs for a defect reported to the maintainers of this check-suite (single-field struct whose listed type is a tuple type:
# utils.rs `validate_type` destructures the listed tuple although there is one field -> E0308 / macro panic). They are supported
# programs by the docs; switched on, they are reported as `<key>/expansion` violations until /repo is fixed or known_findings.txt
# carries `open:` entries for them.
INCLUDE_LISTED_TUPLE_SINGLE_FIELD = True

KINDS = ("owned", "ref", "ref_mut")
NAMES = ["fa", "fb", "fc"]
INTS = ["u8", "u16", "u32"]


# ----------------------------------------------------------------------------------------------------------------------
# field types
# ----------------------------------------------------------------------------------------------------------------------
class Ty:
    def __init__(self, rust, any_expr, k=None, pay=None, pty=None, fam=None):
        self.rust = rust
        self.any = any_expr
        self.k = k
        self.pay = pay or (lambda e: e)   # payload place expression (something one can assign a `pty` to)
        self.pty = pty or rust
        self.fam = fam or "int"


def INT(t):
    return Ty(t, "kani::any::<%s>()" % t)


def SEED(k):
    return Ty("Seed<%d>" % k, "Seed::<%d>(kani::any())" % k, k, lambda e: "%s.0" % e, "u32", "seed")


def SEED2(k):
    return Ty("Seed2<%d>" % k, "Seed2::<%d>(kani::any())" % k, k, lambda e: "%s.0" % e, "u16", "seed2")


def CONV(k):
    return Ty("Conv<%d>" % k, "Conv::<%d> { src: kani::any(), hops: kani::any(), via: kani::any() }" % k, k, fam="conv")


def CONV2(k):
    return Ty("Conv2<%d>" % k, "Conv2::<%d> { src: kani::any(), hops: kani::any(), via: kani::any() }" % k, k, fam="conv2")


def tup(xs):
    xs = list(xs)
    if len(xs) == 1:
        return xs[0]
    return "(" + ", ".join(xs) + ")"


def comp(e, n, i):
    return e if n == 1 else "%s.%d" % (e, i)


def conj(xs):
    xs = [x for x in xs if x]
    return " && ".join(xs) if xs else "true"


class Def:
    """A struct (or the field list of one enum variant)."""

    def __init__(self, shape, tys, name="S", attrs=(), fattrs=None, gdecl="", guse="", where="", names=None):
        self.shape = shape if tys or shape != "unit" else "unit"
        self.tys = list(tys)
        self.n = len(self.tys)
        self.name = name
        self.attrs = list(attrs)
        self.fattrs = fattrs or [[] for _ in self.tys]
        self.gdecl, self.guse, self.where = gdecl, guse, where
        self.names = list(names) if names else NAMES

    def acc(self, i):
        return str(i) if self.shape == "tuple" else self.names[i]

    def body(self):
        if self.shape == "unit":
            return ""
        fs = []
        for i, t in enumerate(self.tys):
            a = "".join(x + " " for x in self.fattrs[i])
            fs.append(a + ("pub " + t.rust if self.shape == "tuple" else "pub %s: %s" % (self.names[i], t.rust)))
        return "(" + ", ".join(fs) + ")" if self.shape == "tuple" else " { " + ", ".join(fs) + " }"

    def vbody(self):
        return self.body().replace("pub ", "")

    def decl(self, derives):
        b = self.body()
        tail = ";" if self.shape in ("unit", "tuple") else ""
        w = (" " + self.where) if self.where else ""
        if self.shape == "named":
            return "#[derive(%s)]\n%spub struct %s%s%s%s" % (", ".join(derives), "".join(a + "\n" for a in self.attrs),
                                                            self.name, self.gdecl, w, b)
        return "#[derive(%s)]\n%spub struct %s%s%s%s%s" % (", ".join(derives), "".join(a + "\n" for a in self.attrs),
                                                          self.name, self.gdecl, b, w, tail)

    def lit(self, path, vals):
        if self.shape == "unit":
            return path
        if self.shape == "tuple":
            return "%s(%s)" % (path, ", ".join(vals))
        return "%s { %s }" % (path, ", ".join("%s: %s" % (self.names[i], v) for i, v in enumerate(vals)))

    def pat(self, path, binds):
        if self.shape == "unit":
            return path
        if self.shape == "tuple":
            return "%s(%s)" % (path, ", ".join(binds))
        return "%s { %s }" % (path, ", ".join("%s: %s" % (self.names[i], v) for i, v in enumerate(binds)))

    def mk(self, path=None):
        return self.lit(path or self.name, [t.any for t in self.tys])

    def title(self):
        return "%sstruct %s%s%s" % ("".join(a + " " for a in self.attrs), self.name, self.gdecl, self.vbody() or ";")


def field_tys(n, typing, mk=INT):
    """pairwise DISTINCT types per position, or one SAME type for all (so that a permutation type-checks)."""
    if mk is INT:
        return [INT(INTS[i]) for i in range(n)] if typing == "distinct" else [INT("u32") for _ in range(n)]
    return [mk(i) for i in range(n)] if typing == "distinct" else [mk(0) for _ in range(n)]


TYPE_LEVEL_NOTE = (" [impl-set exactness: presence = this program's harnesses call each documented impl by its exact "
                   "`<Target as From<Source>>` path; absence = %d `static_assertions::assert_not_impl_any!` in this module, "
                   "type-level obligations discharged by rustc when the harness crate is built, not verifier obligations]")


def finish(key, title, items, posts, harnesses, negs, contract="", use_contract=False):
    """Assemble the module text."""
    negs = list(dict.fromkeys(negs))
    neg_src = "\n".join("static_assertions::assert_not_impl_any!(%s);" % n for n in negs)
    body = "\n".join(h[1] for h in harnesses)
    src = r'''
use crate::common::*;

%(items)s

// ---- impl-set exactness, absence part: type-level obligations discharged by rustc (not by the verifier) ----
%(negs)s

// ---- contract predicates (from the property statement; oracles: field access, ptr::eq, the probes' own From) ----
%(posts)s
%(contract)s
#[cfg(kani)]
mod proofs {
    use super::*;
%(body)s
    // PLAYBACK-INSERTION-POINT
}
''' % dict(items=items, negs=neg_src or "// (none for this program)", posts="\n".join(posts), body=body, contract=contract)
    hs = [h[0] for h in harnesses]
    if hs:
        hs[0].obligation += TYPE_LEVEL_NOTE % len(negs)
    p = Program(key, title, src, hs, meta={"type_level": len(negs)})
    return p


def H(name, obligation, body, kind="proof", fn=None):
    attr = "#[kani::proof]"
    return (Harness(name, obligation, kind=kind, fn=fn),
            "    %s\n    fn %s() {\n%s\n    }" % (attr, name, "\n".join("        " + l for l in body)))


# ----------------------------------------------------------------------------------------------------------------------
# P1: plain struct deriving From + Into + Constructor
# ----------------------------------------------------------------------------------------------------------------------
def prog_plain(shape, n, typing, with_contract=False, with_control=False, names=None, tag=""):
    d = Def(shape, field_tys(n, typing), names=names)
    key = ("s_%s%d_%s" % (shape, n, typing) if n else "s_%s0" % shape) + tag
    src_ty = tup(t.rust for t in d.tys) if n else "()"
    items = d.decl(["Clone", "Copy", "Debug", "From", "Into", "Constructor"]) + "\npub type Src = %s;" % src_ty
    eqs = conj("r.%s == %s" % (d.acc(i), comp("a", n, i)) for i in range(n))
    posts = [
        "/// i-th component is in the i-th declared field\npub fn post_from(a: Src, r: &S) -> bool { %s }" % eqs,
        "pub fn post_new(%s r: &S) -> bool { %s }" % ("".join("a%d: %s, " % (i, t.rust) for i, t in enumerate(d.tys)),
                                                     conj("r.%s == a%d" % (d.acc(i), i) for i in range(n))),
        "/// the tuple holds the fields in declaration order\npub fn post_into_owned(v: &S, t: &Src) -> bool { %s }" %
        conj("%s == v.%s" % (comp("(*t)" if n == 1 else "t", n, i), d.acc(i)) for i in range(n)),
        "pub fn same(x: &S, y: &S) -> bool { %s }" % conj("x.%s == y.%s" % (d.acc(i), d.acc(i)) for i in range(n)),
    ]
    any_src = tup(t.any for t in d.tys) if n else "()"
    hs = [
        H("ob_from", "forall a: %s. post_from(a, S::from(a)) := r.f_i == a.i for every declared field" % src_ty,
          ["let a: Src = %s;" % any_src, "let r = <S as From<Src>>::from(a);", 'assert!(post_from(a, &r), "post_from");'],
          fn="<S as From<%s>>::from" % src_ty),
        H("ob_new", "forall a0..: post_new(a0,.., S::new(a0,..)) := r.f_i == a_i",
          ["let a%d: %s = %s;" % (i, t.rust, t.any) for i, t in enumerate(d.tys)] +
          ["let r = S::new(%s);" % ", ".join("a%d" % i for i in range(n)),
           'assert!(post_new(%s&r), "post_new");' % "".join("a%d, " % i for i in range(n)) if n else 'assert!(post_new(&r), "post_new");'],
          fn="S::new"),
        H("ob_into_owned", "forall v: S. post_into_owned(v, <%s>::from(v)) := t.j == v.f_j in declaration order" % src_ty,
          ["let v = %s;" % d.mk(), "let t = <Src as From<S>>::from(v);", 'assert!(post_into_owned(&v, &t), "post_into_owned");'],
          fn="<%s as From<S>>::from" % src_ty),
        H("ob_roundtrip", "forall v, a: S::from(Src::from(v)) == v (fieldwise) and Src::from(S::from(a)) == a",
          ["let v = %s;" % d.mk(), "let back = <S as From<Src>>::from(<Src as From<S>>::from(v));",
           'assert!(same(&back, &v), "from(into(v)) == v");', "let a: Src = %s;" % any_src,
           "let t = <Src as From<S>>::from(<S as From<Src>>::from(a));", 'assert!(t == a, "into(from(a)) == a");'],
          fn="generated from + into"),
    ]
    if with_contract:
        contract = r'''
#[cfg_attr(kani, kani::ensures(|r| post_from(a, r)))]
pub fn from_contract(a: Src) -> S { <S as From<Src>>::from(a) }
#[cfg_attr(kani, kani::ensures(|t| post_into_owned(&v, t)))]
pub fn into_contract(v: S) -> Src { <Src as From<S>>::from(v) }
'''
        hs.append((Harness("ob_contract_from", "#[kani::ensures(post_from)] on from_contract, proof_for_contract", kind="contract",
                           fn="from_contract (thin wrapper of the generated <S as From<%s>>::from)" % src_ty),
                   "    #[kani::proof_for_contract(from_contract)]\n    fn ob_contract_from() { from_contract(%s); }" % any_src))
        hs.append((Harness("ob_contract_into", "#[kani::ensures(post_into_owned)] on into_contract, proof_for_contract",
                           kind="contract", fn="into_contract (thin wrapper of the generated <%s as From<S>>::from)" % src_ty),
                   "    #[kani::proof_for_contract(into_contract)]\n    fn ob_contract_into() { into_contract(%s); }" % d.mk()))
    else:
        contract = ""
    if with_control and n >= 2:
        hs.append(H("control_false_post", "deliberately false post-condition (component 1 in field 0) must FAIL",
                    ["let a: Src = %s;" % any_src, "let r = <S as From<Src>>::from(a);",
                     'assert!(r.%s as u32 == a.1 as u32, "false post");' % d.acc(0)], kind="negative_control"))
    negs = []
    if n >= 1:
        negs.append("S: From<()>")
        negs.append("(): From<S>")
    if n >= 2:
        for t in dict.fromkeys(t.rust for t in d.tys):
            negs.append("S: From<%s>" % t)
            negs.append("%s: From<S>" % t)
        negs.append("%s: From<S>" % tup(d.tys[i].rust for i in range(n - 1)))
        negs.append("S: From<%s>" % tup(d.tys[i].rust for i in range(n - 1)))
    # no reference kinds were asked for
    rs = tup("&'static " + t.rust for t in d.tys) if n else "()"
    ms = tup("&'static mut " + t.rust for t in d.tys) if n else "()"
    negs.append("%s: From<&'static S>" % rs)
    negs.append("%s: From<&'static mut S>" % ms)
    return finish(key, d.title() + "  #[derive(From, Into, Constructor)]", items, posts, hs, negs, contract)


# ----------------------------------------------------------------------------------------------------------------------
# Into: model of the documented rules -> expected impl set -> harnesses + negative assertions
# ----------------------------------------------------------------------------------------------------------------------
DEFAULT = {"owned": (True, [])}


def into_expected(n, skip, sattr, fattr):
    """sattr / fattr[i]: None (no attribute) | {} (bare `#[into]`) | {kind: (consider_fields_ty, [listed, ..])}
    listed = list of component specs ("own" | "conv" | "conv2" | "tr"), one per converted field.
    Returns [(kind, [field index..], [spec..])] in no particular order (a set)."""
    impls = []
    for i in range(n):
        if fattr[i] is not None:
            c = fattr[i] or DEFAULT
            for kind in KINDS:
                if kind in c:
                    consider, tys = c[kind]
                    if consider:
                        impls.append((kind, [i], ["own"]))
                    for t in tys:
                        impls.append((kind, [i], list(t)))
    if sattr is not None or all(f is None for f in fattr):
        c = sattr or DEFAULT
        idx = [i for i in range(n) if not skip[i]]
        for kind in KINDS:
            if kind in c:
                consider, tys = c[kind]
                if consider:
                    impls.append((kind, idx, ["own"] * len(idx)))
                for t in tys:
                    impls.append((kind, idx, list(t)))
    return impls


def spec_ty(ft, spec):
    if spec == "own":
        return ft.rust
    return {"conv": "Conv<%d>", "conv2": "Conv2<%d>", "tr": "Tr<%d>"}[spec] % ft.k


def kind_ref(kind, static=False):
    lt = "'static " if static else ""
    return {"owned": "", "ref": "&" + lt, "ref_mut": "&" + lt + "mut "}[kind]


def target_ty(d, kind, idx, specs, static=False):
    r = kind_ref(kind, static)
    if not idx:
        return "()"
    return tup(r + spec_ty(d.tys[i], s) for i, s in zip(idx, specs))


def render_conv(c, tys_of, style):
    """-> list of attribute argument strings (one per attribute when split)."""
    if not c:
        return [""]
    parts = []
    for kind in KINDS if style != "rev" else KINDS[::-1]:
        if kind not in c:
            continue
        consider, tys = c[kind]
        if consider:
            parts.append(kind)
        if tys:
            if kind == "owned" and style == "bare" and set(c) == {"owned"} and not consider:
                parts.extend(tys_of(kind, t) for t in tys)
            else:
                parts.append("%s(%s%s)" % (kind, ", ".join(tys_of(kind, t) for t in tys), "," if style == "trail" else ""))
    if style == "trail":   # one attribute per item, every list (inner and outer) ends with a trailing comma
        return [x + "," for x in parts]
    if style == "split":
        return parts
    return [", ".join(parts)]


def attr_lines(args):
    return ["#[into(%s)]" % a if a else "#[into]" for a in args]


def prog_into(key, shape, tys, skip=None, sattr=None, fattr=None, style="joined", skipword="skip", fstyle=None, names=None):
    n = len(tys)
    skip = skip or [False] * n
    fattr = fattr or [None] * n
    idx_ns = [i for i in range(n) if not skip[i]]
    d = Def(shape, tys, names=names)
    attrs = []
    if sattr is not None:
        attrs = attr_lines(render_conv(sattr, lambda kind, t: tup(spec_ty(d.tys[i], s) for i, s in zip(idx_ns, t)), style))
    fattrs = []
    for i in range(n):
        fa = []
        if fattr[i] is not None:
            fa += attr_lines(render_conv(fattr[i], lambda kind, t, i=i: spec_ty(d.tys[i], t[0]), fstyle or style))
        if skip[i]:
            fa.append("#[into(%s)]" % skipword)
        if style == "rev":
            fa.reverse()
        fattrs.append(fa)
    d = Def(shape, tys, attrs=attrs, fattrs=fattrs, names=names)
    items = d.decl(["Clone", "Copy", "Debug", "Into"])
    exp = into_expected(n, skip, sattr, fattr)
    posts, hs = [], []
    seen = set()
    by_kind = {k: [] for k in KINDS}
    for kind, idx, specs in exp:
        tt = target_ty(d, kind, idx, specs)
        assert (kind, tt) not in seen, "generator: conflicting impls %s %s in %s" % (kind, tt, key)
        seen.add((kind, tt))
        by_kind[kind].append((idx, specs, tt))

    def what(idx):
        return "fields [%s]" % ",".join(d.acc(i) for i in idx)

    # owned ------------------------------------------------------------------------------------------------------------
    body, obl = ["let v = %s;" % d.mk()], []
    for k, (idx, specs, tt) in enumerate(by_kind["owned"]):
        m = len(idx)
        cs = []
        for j, (i, s) in enumerate(zip(idx, specs)):
            t = comp("(*t)" if m == 1 else "t", m, j)
            f = "v.%s" % d.acc(i)
            if s == "own":
                cs.append("%s == %s" % (t, f))
            else:
                cs.append("%s.src == %s && %s.hops == 1 && %s.via == 1" % (t, d.tys[i].pay(f), t, t))
        posts.append("/// owned: non-skipped %s in declaration order%s\npub fn post_into_owned_%d(v: &S, t: &%s) -> bool { %s }" %
                     (what(idx), "; converted components come from exactly one From::from of that field" if any(s != "own" for s in specs) else "",
                      k, tt, conj(cs)))
        body += ["{ let t = <%s as From<S>>::from(v); assert!(post_into_owned_%d(&v, &t), \"post_into_owned_%d\"); }" % (tt, k, k)]
        obl.append("<%s as From<S>>" % tt)
    if by_kind["owned"]:
        hs.append(H("ob_into_owned", "forall v: S. post_into_owned_k(v, Target_k::from(v)) := t.j == v.f_ij (own type) / "
                    "t.j == Conv{src: v.f_ij, hops: 1} (listed type) for each of: " + ", ".join(obl), body,
                    fn="; ".join(o + "::from" for o in obl)))
    # ref --------------------------------------------------------------------------------------------------------------
    body, obl = ["let v = %s;" % d.mk()], []
    for k, (idx, specs, tt) in enumerate(by_kind["ref"]):
        m = len(idx)
        cs = []
        for j, (i, s) in enumerate(zip(idx, specs)):
            t = comp("(*t)" if m == 1 else "t", m, j)
            f = "v.%s" % d.acc(i)
            if s == "own":
                cs.append("ptr::eq(%s, &%s)" % (t, f))
            else:
                cs.append("ptr::eq(addr(%s), addr(&%s)) && %s.0 == %s" % (t, f, t, d.tys[i].pay(f)))
        ntr = sum(1 for s in specs if s != "own")
        posts.append("/// ref: every component is a reference to that very field\npub fn post_into_ref_%d(v: &S, t: &%s) -> bool { %s }" %
                     (k, tt, conj(cs)))
        body += ["{ ref_hops_reset(); let t = <%s as From<&S>>::from(&v); assert!(post_into_ref_%d(&v, &t), \"post_into_ref_%d\"); "
                 "assert!(ref_hops() == %d, \"exactly one From::from per converted field\"); }" % (tt, k, k, ntr)]
        obl.append("<%s as From<&S>>" % tt)
    if by_kind["ref"]:
        hs.append(H("ob_into_ref", "forall v: S. post_into_ref_k(&v, Target_k::from(&v)) := ptr::eq(t.j, &v.f_ij) for every component "
                    "(listed reference types: same address, one probe From::from per field) for each of: " + ", ".join(obl), body,
                    fn="; ".join(o + "::from" for o in obl)))
    # ref_mut ----------------------------------------------------------------------------------------------------------
    body, obl = [], []
    for k, (idx, specs, tt) in enumerate(by_kind["ref_mut"]):
        m = len(idx)
        ptys = tup("*const u8" for _ in idx) if idx else "()"
        xtys = tup(d.tys[i].pty for i in idx) if idx else "()"
        cs, ws, vis = [], [], []
        for j, (i, s) in enumerate(zip(idx, specs)):
            t = comp("(*t)" if m == 1 else "t", m, j)
            p = comp("p", m, j)
            cs.append("ptr::eq(addr(&*%s), %s)" % (t, p))
            tw = comp("t", m, j)
            x = comp("x", m, j)
            if s == "own":
                ws.append("%s = %s;" % (d.tys[i].pay("(*%s)" % tw) if d.tys[i].fam != "int" else "*%s" % tw, x))
            else:
                ws.append("%s.0 = %s;" % (tw, x))
            vis.append("%s == %s" % (d.tys[i].pay("new.%s" % d.acc(i)), x))
        for i in range(n):
            if i not in idx:
                vis.append("new.%s == old.%s" % (d.acc(i), d.acc(i)))
        ntr = sum(1 for s in specs if s != "own")
        posts.append("/// ref_mut: every component points at that very field\n"
                     "pub fn post_into_mut_addr_%d(p: %s, t: &%s) -> bool { %s }" % (k, ptys, tt, conj(cs)))
        posts.append("/// a write through the returned &mut is visible in exactly the converted fields\n"
                     "pub fn post_into_mut_written_%d(old: &S, new: &S, x: %s) -> bool { %s }" % (k, xtys, conj(vis)))
        body += ["{",
                 "    let mut v = %s; let old = v;" % d.mk(),
                 "    let p: %s = %s;" % (ptys, tup("addr(&v.%s)" % d.acc(i) for i in idx) if idx else "()"),
                 "    let x: %s = %s;" % (xtys, tup("kani::any::<%s>()" % d.tys[i].pty for i in idx) if idx else "()"),
                 "    ref_hops_reset();",
                 "    { let t = <%s as From<&mut S>>::from(&mut v); assert!(post_into_mut_addr_%d(p, &t), \"post_into_mut_addr_%d\"); %s }"
                 % (tt, k, k, " ".join(ws)),
                 "    assert!(ref_hops() == %d, \"exactly one From::from per converted field\");" % ntr,
                 "    assert!(post_into_mut_written_%d(&old, &v, x), \"post_into_mut_written_%d\");" % (k, k),
                 "}"]
        obl.append("<%s as From<&mut S>>" % tt)
    if by_kind["ref_mut"]:
        hs.append(H("ob_into_ref_mut", "forall v: S, x. Target_k::from(&mut v) points at the non-skipped fields in declaration order "
                    "(ptr::eq with the field's own address) and `*t.j = x_j` is visible in v.f_ij and in no other field, for each of: " +
                    ", ".join(obl), body, fn="; ".join(o + "::from" for o in obl)))
    # absence ----------------------------------------------------------------------------------------------------------
    negs = []
    cands = []
    listed = set()
    for kind, idx, specs in exp:
        listed.add((tuple(idx), tuple(specs)))
    for kind in KINDS:
        cands.append((kind, list(range(n)), ["own"] * n))
        cands.append((kind, idx_ns, ["own"] * len(idx_ns)))
        for i in range(n):
            cands.append((kind, [i], ["own"]))
        for idx, specs in listed:
            cands.append((kind, list(idx), list(specs)))
    present = {(k, target_ty(d, k, idx, specs, True)) for k, idx, specs in exp}
    for kind, idx, specs in cands:
        tt = target_ty(d, kind, idx, specs, True)
        if (kind, tt) in present:
            continue
        negs.append("%s: From<%sS>" % (tt, kind_ref(kind, True)))
    return finish(key, d.title() + "  #[derive(Into)]", items, posts, hs, negs)


# ----------------------------------------------------------------------------------------------------------------------
# From: struct with types / forward, and enums
# ----------------------------------------------------------------------------------------------------------------------
def src_spec_ty(ft, spec):
    if spec == "own":
        return ft
    if spec == "onlyinto":
        return Ty("OnlyInto<%d>" % ft.k, "OnlyInto::<%d>(kani::any())" % ft.k, ft.k)
    if spec == "seed1t":   # the 1-tuple `(Seed<K>,)` as ONE listed type for ONE field
        return Ty("(Seed<%d>,)" % ft.k, "(Seed::<%d>(kani::any()),)" % ft.k, ft.k)
    return {"seed": SEED, "seed2": SEED2, "conv": CONV}[spec](ft.k)


def from_checks(d, n, specs, field_expr):
    cs = []
    for i, s in enumerate(specs):
        f = field_expr(i)
        a = comp("a", n, i)
        if s == "own":
            cs.append("%s == %s" % (f, a))
        elif s == "seed":
            cs.append("%s.src == %s.0 && %s.hops == 1 && %s.via == 1" % (f, a, f, f))
        elif s == "seed1t":
            cs.append("%s.src == (%s.0).0 && %s.hops == 1 && %s.via == 5" % (f, a, f, f))
        elif s == "seed2":
            cs.append("%s.src == %s.0 as u32 && %s.hops == 1 && %s.via == 2" % (f, a, f, f))
        elif s == "conv":
            cs.append("%s.src == %s.src && %s.hops == %s.hops.wrapping_add(1) && %s.via == 3" % (f, a, f, a, f))
    return conj(cs)


class Variant:
    def __init__(self, name, shape, tys, attr=None, listed=None, witnesses=None, split=False, names=None, groups=None, absent=None):
        self.name, self.d = name, Def(shape, tys, names=names)
        self.groups = groups      # for "types": [([index into listed, ..], trailing_comma)] = one `#[from(..)]` attribute per entry
        self.absent = absent or []  # for "forward": source spec lists the blanket impl must NOT cover (observed via Maybe::conv)
        self.attr = attr          # None | "from" | "skip" | "ignore" | "types" | "forward"
        self.listed = listed or []  # for "types": list of spec lists
        self.witnesses = witnesses or []  # for "forward": spec lists to call the blanket impl with
        self.split = split

    def attr_lines(self):
        if self.attr is None:
            return []
        if self.attr in ("skip", "ignore", "forward"):
            return ["#[from(%s)]" % self.attr]
        if self.attr == "from":
            return ["#[from]"]
        tys = [tup(src_spec_ty(t, s).rust for t, s in zip(self.d.tys, l)) if self.d.n else "()" for l in self.listed]
        if self.groups:
            assert sorted(i for g, _ in self.groups for i in g) == list(range(len(tys)))
            return ["#[from(%s%s)]" % (", ".join(tys[i] for i in g), "," if trail else "") for g, trail in self.groups]
        if self.split:
            return ["#[from(%s)]" % t for t in tys]
        return ["#[from(%s)]" % ", ".join(tys)]


def from_expected(variants, is_enum):
    """-> per variant: list of (spec list, is_blanket_witness) the docs say exist."""
    explicit = is_enum and any(v.attr in ("from", "types", "forward") for v in variants)
    out = []
    for v in variants:
        own = ["own"] * v.d.n
        if v.attr in ("skip", "ignore"):
            out.append([])
        elif v.attr == "from":
            out.append([own])
        elif v.attr == "types":
            out.append([list(l) for l in v.listed])
        elif v.attr == "forward":
            out.append([list(w) for w in v.witnesses])
        elif explicit or (is_enum and v.d.n == 0):
            out.append([])
        else:
            out.append([own])
    return out


def prog_from(key, variants, is_enum, extra_negs=(), gdecl="", guse="", derives=("Clone", "Copy", "Debug", "From")):
    exp = from_expected(variants, is_enum)
    if is_enum:
        vs = []
        for v in variants:
            vs.append("    " + "".join(a + " " for a in v.attr_lines()) + v.name + v.d.vbody() + ",")
        items = "#[derive(%s)]\npub enum S%s {\n%s\n}" % (", ".join(derives), gdecl, "\n".join(vs))
        title = "enum S%s { %s }  #[derive(From)]" % (gdecl, " ".join(x.strip() for x in vs))
    else:
        v = variants[0]
        d = Def(v.d.shape, v.d.tys, attrs=v.attr_lines(), gdecl=gdecl, names=v.d.names)
        items = d.decl(list(derives))
        title = d.title() + "  #[derive(From)]"
    posts, hs, negs = [], [], []
    present = set()
    k = 0
    for v, impls in zip(variants, exp):
        d, n = v.d, v.d.n
        for specs in impls:
            stys = [src_spec_ty(t, s) for t, s in zip(d.tys, specs)]
            st = tup(t.rust for t in stys) if n else "()"
            present.add(st)
            path = "S::" + v.name if is_enum else "S"
            if is_enum:
                binds = ["x%d" % i for i in range(n)]
                chk = from_checks(d, n, specs, lambda i: "(*x%d)" % i)
                pbody = "match r { %s => %s, _ => false }" % (d.pat(path, binds), chk) if len(variants) > 1 \
                    else "match r { %s => %s }" % (d.pat(path, binds), chk)
            else:
                pbody = from_checks(d, n, specs, lambda i: "r.%s" % d.acc(i))
            posts.append("/// %s: the i-th component%s is in the i-th declared field of %s\npub fn post_from_%d(a: %s, r: &S%s) -> bool { %s }" %
                         (st, " (through exactly one From::from)" if any(s != "own" for s in specs) else "", path, k, st, guse, pbody))
            blanket = v.attr == "forward"
            hs.append(H("ob_from_%d" % k, "forall a: %s. post_from_%d(a, <S as From<%s>>::from(a)) := r is %s and r.f_i == %s%s" %
                        (st, k, st, path, "a.i" if all(s == "own" for s in specs) else "<FieldTy_i as From<_>>::from(a.i) [probe: src preserved, hops == 1, via == the listed source's impl]",
                         " (instance of the #[from(forward)] blanket impl)" if blanket else ""),
                        ["let a: %s = %s;" % (st, tup(t.any for t in stys) if n else "()"),
                         "let r = <S%s as From<%s>>::from(a);" % (guse, st),
                         'assert!(post_from_%d(a, &r), "post_from_%d");' % (k, k)],
                        fn="<S as From<%s>>::from" % st))
            k += 1
    # #[from(forward)]: sources that do not satisfy `FieldTy_i: From<Source_i>` for every field are NOT covered by the blanket impl
    ab = []
    for v in variants:
        for specs in v.absent:
            stys = [src_spec_ty(t, sp) for t, sp in zip(v.d.tys, specs)]
            st = tup(t.rust for t in stys)
            ab.append((st, tup(t.any for t in stys)))
    if ab:
        hs.append(H("ob_forward_only_through_from",
                    "the #[from(forward)] blanket impl is bounded by `FieldTy_i: From<Source_i>`: a source convertible into the field only by a "
                    "hand-written `Into` impl (OnlyInto<K>, no From) gives NO `S: From<Source>` -- observed as a value via Maybe::conv: " +
                    ", ".join("S: !From<%s>" % st for st, _ in ab),
                    ["{ let a: %s = %s; assert!(Maybe::<S%s, %s>::new(a).conv().is_none(), \"no From<%s> for S: the field is not From that source\"); }"
                     % (st, mk, guse, st, st) for st, mk in ab],
                    fn="impl-set of #[from(forward)]"))
    # absence: the own-typed tuple of every variant that the docs give no impl, plus caller-supplied ones
    for v, impls in zip(variants, exp):
        own = tup(t.rust for t in v.d.tys) if v.d.n else "()"
        if own not in present and not any(x.attr == "forward" and x.d.n == v.d.n and x.d.n > 0 for x in variants):
            negs.append("S%s: From<%s>" % (guse, own))
    for e in extra_negs:
        negs.append(e)
    return finish(key, title, items, posts, hs, negs)


# ----------------------------------------------------------------------------------------------------------------------
# hand-written generic programs (lifetime / type / const parameters, where-clauses)
# ----------------------------------------------------------------------------------------------------------------------
def prog_generic_struct(shape):
    d = Def(shape, [Ty("T", ""), Ty("&'a u16", ""), Ty("[u32; N]", "")], name="G", gdecl="<'a, T: Copy, const N: usize>")
    a = d.acc
    items = d.decl(["Clone", "Copy", "Debug", "From", "Constructor"]) + "\npub type S<'a> = G<'a, u8, 2>;\npub type Src<'a> = (u8, &'a u16, [u32; 2]);"
    posts = ["/// i-th component in i-th field; the reference field holds the very same reference\n"
             "pub fn post_from(a: Src<'_>, r: &S<'_>) -> bool { r.%s == a.0 && ptr::eq(r.%s, a.1) && r.%s[0] == a.2[0] && r.%s[1] == a.2[1] }" %
             (a(0), a(1), a(2), a(2))]
    pre = ["let x: u16 = kani::any();", "let a: Src<'_> = (kani::any(), &x, [kani::any(), kani::any()]);"]
    hs = [H("ob_from", "forall a: (u8, &u16, [u32;2]). post_from(a, G::<'_, u8, 2>::from(a))",
            pre + ["let r = <S<'_> as From<Src<'_>>>::from(a);", 'assert!(post_from(a, &r), "post_from");'],
            fn="<G<'a, T, N> as From<(T, &'a u16, [u32; N])>>::from"),
          H("ob_new", "forall a: post_from(a, G::<'_, u8, 2>::new(a.0, a.1, a.2))",
            pre + ["let r = <S<'_>>::new(a.0, a.1, a.2);", 'assert!(post_from(a, &r), "post_new");'], fn="G::<'a, T, N>::new")]
    negs = ["G<'static, u8, 2>: From<(u8, &'static u16, [u32; 3])>", "G<'static, u8, 2>: From<u8>", "G<'static, u8, 2>: From<()>"]
    return finish("g_%s3_lt_ty_const" % shape, d.title() + "  #[derive(From, Constructor)] at G<'_, u8, 2>", items, posts, hs, negs)


def prog_generic_into(shape, skip_mid):
    fattrs = [[], ["#[into(skip)]"] if skip_mid else [], []]
    d = Def(shape, [Ty("Wr<T>", ""), Ty("Wr<&'a u16>", ""), Ty("Wr<[u32; N]>", "")], name="G",
            gdecl="<'a, T, const N: usize>", where="where T: Copy", attrs=["#[into(owned, ref, ref_mut)]"], fattrs=fattrs)
    a = d.acc
    idx = [0, 2] if skip_mid else [0, 1, 2]
    tys = ["Wr<u8>", "Wr<&'a u16>", "Wr<[u32; 2]>"]
    items = d.decl(["Clone", "Copy", "Debug", "Into"]) + "\npub type S<'a> = G<'a, u8, 2>;" + \
        "\npub type Own<'a> = %s;\npub type Refs<'r, 'a> = %s;\npub type Muts<'r, 'a> = %s;" % (
            tup(tys[i] for i in idx), tup("&'r " + tys[i] for i in idx), tup("&'r mut " + tys[i] for i in idx))
    owned = []
    for j, i in enumerate(idx):
        f = "v.%s" % a(i)
        owned.append({0: "t.%d.0 == %s.0", 1: "ptr::eq(t.%d.0, %s.0)", 2: "t.%d.0[0] == %s.0[0] && t.%d.0[1] == %s.0[1]"}[i]
                     .replace("%d", str(j)).replace("%s", f))
    posts = ["pub fn post_into_owned(v: &S<'_>, t: &Own<'_>) -> bool { %s }" % conj(owned),
             "pub fn post_into_ref(v: &S<'_>, t: &Refs<'_, '_>) -> bool { %s }" % conj("ptr::eq(t.%d, &v.%s)" % (j, a(i)) for j, i in enumerate(idx)),
             "pub fn post_into_mut_addr(p: %s, t: &Muts<'_, '_>) -> bool { %s }" % (tup("*const u8" for _ in idx),
                                                                                  conj("ptr::eq(addr(&*t.%d), p.%d)" % (j, j) for j in range(len(idx))))]
    mk = "let x: u16 = kani::any(); let y: u16 = kani::any(); let %sv: S<'_> = %s;"
    lit = d.lit("G", ["Wr(kani::any::<u8>())", "Wr(&x)", "Wr([kani::any(), kani::any()])"])
    hs = [H("ob_into_owned", "forall v. post_into_owned(v, Own::from(v)): non-skipped fields in declaration order",
            [mk % ("", lit), "let t = <Own<'_> as From<S<'_>>>::from(v);", 'assert!(post_into_owned(&v, &t), "post_into_owned");'],
            fn="<(Wr<T>, .., Wr<[u32; N]>) as From<G<'a, T, N>>>::from"),
          H("ob_into_ref", "forall v. ptr::eq(t.j, &v.f_ij)",
            [mk % ("", lit), "let t = <Refs<'_, '_> as From<&S<'_>>>::from(&v);", 'assert!(post_into_ref(&v, &t), "post_into_ref");'],
            fn="<(&Wr<T>, ..) as From<&G<'a, T, N>>>::from"),
          H("ob_into_ref_mut", "forall v. &mut components point at the very fields; a write through the first is visible in that field only",
            [mk % ("mut ", lit), "let old = v;", "let p = %s;" % tup("addr(&v.%s)" % a(i) for i in idx), "let w: u8 = kani::any();",
             "{ let t = <Muts<'_, '_> as From<&mut S<'_>>>::from(&mut v); assert!(post_into_mut_addr(p, &t), \"post_into_mut_addr\"); "
             "(t.0).0 = w; (t.%d).0[1] = 7; }" % (len(idx) - 1),
             'assert!(v.%s.0 == w && v.%s.0[1] == 7 && v.%s.0[0] == old.%s.0[0] && ptr::eq(v.%s.0, old.%s.0), "write visible in that very field only");'
             % (a(0), a(2), a(2), a(2), a(1), a(1))],
            fn="<(&mut Wr<T>, ..) as From<&mut G<'a, T, N>>>::from")]
    negs = ["Wr<u8>: From<G<'static, u8, 2>>", "Wr<[u32; 2]>: From<G<'static, u8, 2>>"]
    if skip_mid:
        negs += ["(Wr<u8>, Wr<&'static u16>, Wr<[u32; 2]>): From<G<'static, u8, 2>>", "Wr<&'static u16>: From<G<'static, u8, 2>>",
                 "(&'static Wr<u8>, &'static Wr<&'static u16>, &'static Wr<[u32; 2]>): From<&'static G<'static, u8, 2>>"]
    else:
        negs += ["(Wr<u8>, Wr<[u32; 2]>): From<G<'static, u8, 2>>"]
    return finish("gi_%s3_lt_ty_const%s" % (shape, "_skip1" if skip_mid else ""), d.title() + "  #[derive(Into)] at G<'_, u8, 2>",
                  items, posts, hs, negs)


def prog_generic_enum():
    items = ("#[derive(Clone, Copy, Debug, From)]\npub enum G<'a, T: Copy, const N: usize> where T: 'a {\n"
             "    A(T, u8),\n    B { fa: &'a u16, fb: [u32; N] },\n    #[from(skip)] C(T),\n    D,\n}\npub type S<'a> = G<'a, u16, 2>;")
    posts = ["pub fn post_from_a(a: (u16, u8), r: &S<'_>) -> bool { match r { G::A(x0, x1) => *x0 == a.0 && *x1 == a.1, _ => false } }",
             "pub fn post_from_b(a: (&u16, [u32; 2]), r: &S<'_>) -> bool { match r { G::B { fa, fb } => ptr::eq(*fa, a.0) && fb[0] == a.1[0] && fb[1] == a.1[1], _ => false } }"]
    hs = [H("ob_from_a", "forall a: (u16, u8). G::from(a) is G::A with x_i == a.i",
            ["let a: (u16, u8) = kani::any();", "let r = <S<'_> as From<(u16, u8)>>::from(a);", 'assert!(post_from_a(a, &r), "post_from_a");'],
            fn="<G<'a, T, N> as From<(T, u8)>>::from"),
          H("ob_from_b", "forall a: (&u16, [u32;2]). G::from(a) is G::B with fa the same reference and fb == a.1",
            ["let x: u16 = kani::any();", "let a: (&u16, [u32; 2]) = (&x, [kani::any(), kani::any()]);",
             "let r = <S<'_> as From<(&u16, [u32; 2])>>::from(a);", 'assert!(post_from_b(a, &r), "post_from_b");'],
            fn="<G<'a, T, N> as From<(&'a u16, [u32; N])>>::from")]
    negs = ["G<'static, u16, 2>: From<u16>", "G<'static, u16, 2>: From<()>", "G<'static, u16, 2>: From<(u8, u16)>"]
    return finish("ge_lt_ty_const_where", "enum G<'a, T: Copy, const N: usize> where T: 'a { A(T, u8), B{fa: &'a u16, fb: [u32; N]}, #[from(skip)] C(T), D }",
                  items, posts, hs, negs)


def listed_tuple_single_field_programs():
    out = []
    any_pair = "PairConv { a: kani::any(), b: kani::any(), hops: kani::any() }"
    out.append(finish(
        "f_tuple1_listed_tuple", "#[from((Seed<0>, Seed2<0>))] struct S(PairConv)  #[derive(From)]  (PairConv: From<(Seed<0>, Seed2<0>)>)",
        "#[derive(Clone, Copy, Debug, From)]\n#[from((Seed<0>, Seed2<0>))]\npub struct S(pub PairConv);",
        ["pub fn post_from(a: (Seed<0>, Seed2<0>), r: &S) -> bool { r.0.a == (a.0).0 && r.0.b == (a.1).0 && r.0.hops == 1 }"],
        [H("ob_from", "forall a: (Seed<0>, Seed2<0>). S::from(a).0 == PairConv::from(a) (one From::from of the single field)",
           ["let a = (Seed::<0>(kani::any()), Seed2::<0>(kani::any()));", "let r = <S as From<(Seed<0>, Seed2<0>)>>::from(a);",
            'assert!(post_from(a, &r), "post_from");'], fn="<S as From<(Seed<0>, Seed2<0>)>>::from")],
        ["S: From<PairConv>", "S: From<Seed<0>>"]))
    out.append(finish(
        "f_tuple1_listed_unit", "#[from(())] struct S(PairConv)  #[derive(From)]  (PairConv: From<()>)",
        "#[derive(Clone, Copy, Debug, From)]\n#[from(())]\npub struct S(pub PairConv);",
        ["pub fn post_from(a: (), r: &S) -> bool { r.0.a == 0 && r.0.b == 0 && r.0.hops == 1 }"],
        [H("ob_from", "S::from(()).0 == PairConv::from(())", ["let r = <S as From<()>>::from(());", 'assert!(post_from((), &r), "post_from");'],
           fn="<S as From<()>>::from")],
        ["S: From<PairConv>"]))
    out.append(finish(
        "it_tuple1_listed_tuple", "#[into((Conv<0>, Seed2<0>))] struct S(PairConv)  #[derive(Into)]  ((Conv<0>, Seed2<0>): From<PairConv>)",
        "#[derive(Clone, Copy, Debug, Into)]\n#[into((Conv<0>, Seed2<0>))]\npub struct S(pub PairConv);",
        ["pub fn post_into_owned(v: &S, t: &(Conv<0>, Seed2<0>)) -> bool { t.0.src == v.0.a && t.0.via == 4 && t.0.hops == v.0.hops.wrapping_add(1) && (t.1).0 == v.0.b }"],
        [H("ob_into_owned", "forall v. <(Conv<0>, Seed2<0>)>::from(v) == <(Conv<0>, Seed2<0>)>::from(v.0) (one From::from of the single field)",
           ["let v = S(%s);" % any_pair, "let t = <(Conv<0>, Seed2<0>) as From<S>>::from(v);", 'assert!(post_into_owned(&v, &t), "post_into_owned");'],
           fn="<(Conv<0>, Seed2<0>) as From<S>>::from")],
        ["PairConv: From<S>"]))
    return out


def listed_one_tuple_programs(tier):
    """A listed 1-TUPLE type `(T,)` for a single (non-skipped) field is the whole type to convert (doc: one impl per listed type):
    `#[into((T,))] struct S(F)` => `impl From<S> for (T,)` through `<(T,) as From<F>>`, and NOT `impl From<S> for T`. The probes
    implement BOTH conversions (different `via` / different addresses), and presence / absence of each impl is observed as a value
    through `Maybe::<Target, Source>::conv()`, so the wrong impl set is a counterexample the verifier replays."""
    out = []
    I = lambda *ts: [INT(t) for t in ts]
    C1 = lambda: field_tys(1, "distinct", CONV)
    # From side: the field is built by <Conv<0> as From<(Seed<0>,)>> (via 5), never by From<Seed<0>> (via 1)
    out.append(prog_from("f_tuple1_listed_1tuple", [Variant("S", "tuple", C1(), "types", [["seed1t"]])], False,
                         extra_negs=["S: From<Seed<0>>", "S: From<Conv<0>>", "S: From<()>"]))
    out.append(prog_from("e_variant1_listed_1tuple", [Variant("A", "named", C1(), "types", [["seed1t"]]), Variant("B", "tuple", I("u8", "u16")),
                                                      Variant("U", "unit", [])], True, extra_negs=["S: From<Seed<0>>", "S: From<Conv<0>>"]))
    if tier == "thorough":
        out.append(prog_from("f_named1_listed_1tuple_and_bare", [Variant("S", "named", C1(), "types", [["seed1t"], ["seed"]], split=True)], False,
                             extra_negs=["S: From<Seed2<0>>", "S: From<Conv<0>>"]))

    def owned(key, title, items, mk, field, negs):
        posts = ["/// the listed 1-tuple impl ran exactly once on the field: via == 5 (the bare-element impl would leave via == 6)\n"
                 "pub fn post_into_owned(v: &S, t: &(Conv<0>,)) -> bool { t.0.src == (v.%s).0 && t.0.hops == 1 && t.0.via == 5 }" % field]
        hs = [H("ob_into_owned_impl_set",
                "forall v. `(Conv<0>,): From<S>` exists and post_into_owned(v, it(v)) [one <(Conv<0>,) as From<One>>::from of the field]; "
                "`Conv<0>: From<S>` (the bare element of the listed 1-tuple) does NOT exist -- both observed as values via Maybe::conv",
                ["let v = %s;" % mk,
                 "let got = Maybe::<(Conv<0>,), S>::new(v).conv();",
                 'assert!(matches!(&got, Some(t) if post_into_owned(&v, t)), "From<S> for (Conv<0>,) exists and satisfies post_into_owned");',
                 'assert!(Maybe::<Conv<0>, S>::new(v).conv().is_none(), "no From<S> for the bare element type Conv<0>");'],
                fn="<(Conv<0>,) as From<S>>::from")]
        return finish(key, title, items, posts, hs, negs)

    out.append(owned("it_tuple1_listed_1tuple", "#[into((Conv<0>,))] struct S(One)  #[derive(Into)]  (One converts into (Conv<0>,) AND into Conv<0>)",
                     "#[derive(Clone, Copy, Debug, Into)]\n#[into((Conv<0>,))]\npub struct S(pub One);", "S(One(kani::any()))", "0",
                     ["One: From<S>", "(One,): From<S>", "&'static (Conv<0>,): From<&'static S>"]))
    out.append(owned("if_tuple2_field0_listed_1tuple", "struct S(#[into((Conv<0>,))] One, u8)  #[derive(Into)]  (field-level listed 1-tuple)",
                     "#[derive(Clone, Copy, Debug, Into)]\npub struct S(#[into((Conv<0>,))] pub One, pub u8);", "S(One(kani::any()), kani::any())", "0",
                     ["One: From<S>", "(One, u8): From<S>", "u8: From<S>"]))
    if tier == "thorough":
        out.append(owned("it_named2_skip0_listed_1tuple", "#[into((Conv<0>,))] struct S { #[into(skip)] fa: u8, fb: One }  #[derive(Into)]",
                         "#[derive(Clone, Copy, Debug, Into)]\n#[into((Conv<0>,))]\npub struct S { #[into(skip)] pub fa: u8, pub fb: One }",
                         "S { fa: kani::any(), fb: One(kani::any()) }", "fb", ["One: From<S>", "(u8, One): From<S>", "(u8, Conv<0>): From<S>"]))
        # both the 1-tuple and its element listed: two impls, told apart by `via`
        out.append(finish(
            "it_named1_listed_1tuple_and_bare", "#[into((Conv<0>,), Conv<0>)] struct S { fa: One }  #[derive(Into)]",
            "#[derive(Clone, Copy, Debug, Into)]\n#[into((Conv<0>,), Conv<0>)]\npub struct S { pub fa: One }",
            ["pub fn post_into_owned_1tuple(v: &S, t: &(Conv<0>,)) -> bool { t.0.src == v.fa.0 && t.0.hops == 1 && t.0.via == 5 }",
             "pub fn post_into_owned_bare(v: &S, t: &Conv<0>) -> bool { t.src == v.fa.0 && t.hops == 1 && t.via == 6 }"],
            [H("ob_into_owned", "forall v. each listed type gets its own impl through its own <Listed as From<One>>::from (via 5 / via 6)",
               ["let v = S { fa: One(kani::any()) };",
                'let t = <(Conv<0>,) as From<S>>::from(v); assert!(post_into_owned_1tuple(&v, &t), "post_into_owned_1tuple");',
                'let u = <Conv<0> as From<S>>::from(v); assert!(post_into_owned_bare(&v, &u), "post_into_owned_bare");'],
               fn="<(Conv<0>,) as From<S>>::from; <Conv<0> as From<S>>::from")],
            ["One: From<S>"]))
    # references: &(Lab,) and &Lab are two different places inside the field, so the address tells which impl ran
    mk = "S { fa: OneRef { wrapped: (Lab(kani::any()),), bare: Lab(kani::any()) } }"
    out.append(finish(
        "it_named1_listed_1tuple_refs", "#[into(ref((Lab,)), ref_mut((Lab,)))] struct S { fa: OneRef }  #[derive(Into)]  (OneRef lends &(Lab,) AND &Lab)",
        "#[derive(Clone, Copy, Debug, Into)]\n#[into(ref((Lab,)), ref_mut((Lab,)))]\npub struct S { pub fa: OneRef }",
        ["/// the reference is the one <&(Lab,) as From<&OneRef>> hands out for that very field\n"
         "pub fn post_into_ref(v: &S, t: &&(Lab,)) -> bool { ptr::eq(*t, &v.fa.wrapped) }",
         "pub fn post_into_mut_addr(p: *const u8, t: &&mut (Lab,)) -> bool { ptr::eq(addr(&**t), p) }",
         "pub fn post_into_mut_written(old: &S, new: &S, x: u32) -> bool { ((new.fa.wrapped).0).0 == x && new.fa.bare == old.fa.bare }"],
        [H("ob_into_ref_impl_set", "forall v. `&(Lab,): From<&S>` exists, points at v.fa.wrapped, one From::from; `&Lab: From<&S>` does NOT exist "
           "(observed as values via Maybe::conv)",
           ["let v = %s;" % mk, "ref_hops_reset();",
            "{ let got = Maybe::<&(Lab,), &S>::new(&v).conv(); "
            'assert!(matches!(&got, Some(t) if post_into_ref(&v, t)), "From<&S> for &(Lab,) exists and satisfies post_into_ref"); }',
            'assert!(ref_hops() == 1, "exactly one From::from of the field");',
            'assert!(Maybe::<&Lab, &S>::new(&v).conv().is_none(), "no From<&S> for the bare element &Lab");'],
           fn="<&(Lab,) as From<&S>>::from"),
         H("ob_into_ref_mut_impl_set", "forall v, x. `&mut (Lab,): From<&mut S>` exists, points at v.fa.wrapped, a write through it is visible "
           "there and nowhere else; `&mut Lab: From<&mut S>` does NOT exist",
           ["let mut v = %s; let old = v;" % mk, "let p = addr(&v.fa.wrapped);", "let x: u32 = kani::any();", "ref_hops_reset();",
            "{ let got = Maybe::<&mut (Lab,), &mut S>::new(&mut v).conv(); "
            'assert!(matches!(&got, Some(t) if post_into_mut_addr(p, t)), "From<&mut S> for &mut (Lab,) exists and points at the field"); '
            "if let Some(t) = got { (t.0).0 = x; } }",
            'assert!(ref_hops() == 1, "exactly one From::from of the field");',
            'assert!(post_into_mut_written(&old, &v, x), "post_into_mut_written");',
            'assert!(Maybe::<&mut Lab, &mut S>::new(&mut v).conv().is_none(), "no From<&mut S> for the bare element &mut Lab");'],
           fn="<&mut (Lab,) as From<&mut S>>::from")],
        ["OneRef: From<S>", "(Lab,): From<S>", "Lab: From<S>", "&'static OneRef: From<&'static S>"]))
    return out


def repeated_from_attr_programs(tier):
    """Repeated `#[from(<types>)]` attributes on one struct / one enum variant are merged: one impl per listed type of EVERY attribute
    (presence: each impl is called), also when an attribute -- first or later -- ends with a trailing comma (rustfmt's multi-line form)."""
    out = []
    I = lambda *ts: [INT(t) for t in ts]
    C = lambda n, typing="distinct": field_tys(n, typing, CONV)
    # enum variants, 2 and 3 attributes, tuple and named, no trailing commas
    out.append(prog_from("e_variants_repeated_types", [
        Variant("A", "tuple", C(1), "types", [["seed"], ["seed2"]], split=True),
        Variant("B", "named", C(2, "same"), "types", [["seed", "seed"], ["seed2", "seed"], ["own", "seed2"]], split=True),
        Variant("C", "tuple", I("u8")), Variant("U", "unit", [])], True, extra_negs=["S: From<Conv<0>>", "S: From<(Conv<0>, Conv<0>)>"]))
    out.append(prog_from("e_variants_repeated_types_2", [
        Variant("U", "unit", []),
        Variant("A", "named", [CONV2(0)], "types", [["seed"], ["conv"]], split=True),
        Variant("B", "tuple", C(3, "same"), "types", [["seed", "seed", "seed"], ["seed", "seed2", "seed"], ["seed2", "own", "seed2"]],
                groups=[([0], False), ([1, 2], False)]),
        Variant("C", "named", I("u16", "u16"))], True, extra_negs=["S: From<Seed2<0>>", "S: From<(u16, u16)>"]))
    # trailing commas in the first / a later / every attribute
    out.append(prog_from("f_tuple1_ty_repeated_trailing_later", [
        Variant("S", "tuple", C(1), "types", [["seed"], ["seed2"], ["own"]], groups=[([0], False), ([1, 2], True)])], False, extra_negs=["S: From<()>"]))
    out.append(prog_from("f_named2_ty_same_repeated_trailing_each", [
        Variant("S", "named", C(2, "same"), "types", [["seed", "seed"], ["seed2", "seed"], ["own", "seed2"]],
                groups=[([0], True), ([1], True), ([2], True)])], False, extra_negs=["S: From<(Conv<0>, Conv<0>)>"]))
    out.append(prog_from("e_variants_repeated_types_trailing", [
        Variant("A", "tuple", C(1), "types", [["seed"], ["seed2"], ["own"]], groups=[([0, 1], True), ([2], True)]),
        Variant("B", "named", C(2, "same"), "types", [["seed", "seed"], ["seed2", "seed"], ["seed", "seed2"]], groups=[([0], False), ([1], False), ([2], True)]),
        Variant("C", "tuple", I("u8", "u8"))], True, extra_negs=["S: From<(u8, u8)>"]))
    if tier == "thorough":
        out.append(prog_from("f_tuple3_ty_repeated_trailing_first_only", [
            Variant("S", "tuple", C(3), "types", [["seed", "seed", "seed"], ["seed2", "own", "seed"]], groups=[([0], True), ([1], False)])], False))
        out.append(prog_from("f_tuple1_ty_single_attr_trailing", [
            Variant("S", "tuple", C(1), "types", [["seed"], ["seed2"]], groups=[([0, 1], True)])], False))
        out.append(prog_from("f_unit_ty_repeated_trailing", [Variant("S", "unit", [], "types", [[]], groups=[([0], True)])], False))
    # the same spellings for `#[into(..)]` type lists (struct and field level)
    S = lambda n, typing="distinct": field_tys(n, typing, SEED)
    out.append(prog_into("it_named2_ty_same_trailing", "named", S(2, "same"),
                         sattr={"owned": (False, [["conv", "conv"], ["own", "conv2"]]), "ref": (True, [["tr", "own"]]), "ref_mut": (False, [["own", "tr"], ["tr", "tr"]])},
                         style="trail"))
    out.append(prog_into("if_tuple2_field_ty_trailing", "tuple", S(2),
                         fattr=[{"owned": (True, [["conv"], ["conv2"]]), "ref": (False, [["tr"]])}, {"ref_mut": (True, [["tr"]]), "owned": (False, [["conv"]])}],
                         style="trail"))
    return out


def enum_fieldless_annotated_programs(tier):
    """Enums in which EVERY explicitly annotated variant is field-less (unit / `V()` / `V {}` x `#[from]` / `#[from(())]` /
    `#[from(forward)]`) next to un-annotated variants WITH fields: the annotation gives `From<()>` for that variant (presence: called)
    and switches every un-annotated variant off (absence: assert_not_impl_any! on each of their own-typed tuples)."""
    out = []
    I = lambda *ts: [INT(t) for t in ts]
    sibs = [
        lambda: [Variant("Key", "tuple", I("u32")), Variant("Resize", "named", I("u16", "u32"))],
        lambda: [Variant("P", "named", I("u8")), Variant("Q", "tuple", I("u32", "u32", "u32")), Variant("Z", "unit", [])],
        lambda: [Variant("A", "tuple", I("u8", "u16")), Variant("B", "named", I("u16", "u8", "u32")), Variant("C", "tuple", I("u16"))],
    ]
    c = 0
    for sh in ("unit", "tuple", "named"):
        for attr in ("from", "types", "forward"):
            v = Variant("Tick", sh, [], attr, listed=[[]] if attr == "types" else None, witnesses=[[]] if attr == "forward" else None)
            vs = sibs[c % 3]()
            vs.insert(c % (len(vs) + 1), v)
            out.append(prog_from("e_%s0_%s_only_fieldless_annotated" % (sh, {"from": "from", "types": "listed_unit", "forward": "forward"}[attr]),
                                 vs, True, extra_negs=["S: From<u8>" if c % 3 == 0 else "S: From<(u32, u32)>"]))
            c += 1
    return out


# ----------------------------------------------------------------------------------------------------------------------
# the family
# ----------------------------------------------------------------------------------------------------------------------
def plain_programs(tier):
    out = []
    shapes = [("unit", 0, "distinct"), ("tuple", 0, "distinct"), ("named", 0, "distinct")]
    if tier == "quick":
        shapes += [("tuple", 1, "distinct"), ("named", 1, "distinct"), ("tuple", 2, "distinct"), ("named", 2, "same"),
                   ("tuple", 3, "distinct"), ("named", 3, "distinct"), ("tuple", 3, "same"), ("named", 3, "same")]
    else:
        for n in (1, 2, 3):
            for sh in ("tuple", "named"):
                for ty in (("distinct", "same") if n > 1 else ("distinct",)):
                    shapes.append((sh, n, ty))
    # named fields whose names are raw keywords (`r#type`): `new`'s parameters, the struct literal and the accessors all need the r# form
    out.append(prog_plain("named", 3, "distinct", names=["r#type", "r#in", "r#while"], tag="_rawkw"))
    out.append(prog_plain("named", 2, "same", names=["r#fn", "r#priority"], tag="_rawkw"))
    if tier == "thorough":
        out.append(prog_plain("named", 1, "distinct", names=["r#match"], tag="_rawkw"))
        out.append(prog_plain("named", 3, "same", names=["r#loop", "r#struct", "r#mod"], tag="_rawkw"))
    first_contract = True
    first_control = True
    for sh, n, ty in shapes:
        c = first_contract and n == 3 and ty == "distinct"
        k = first_control and n == 3 and ty == "same"
        out.append(prog_plain(sh, n, ty, with_contract=c, with_control=k))
        first_contract = first_contract and not c
        first_control = first_control and not k
    return out


def kinds_attr(kinds):
    return {k: (True, []) for k in kinds}


def into_kind_programs(tier):
    out = []
    all_kinds = [ks for r in (1, 2, 3) for ks in itertools.combinations(KINDS, r)]
    if tier == "quick":
        cfgs = [  # (shape, n, typing, skipmask, kinds, style, skipword)
            ("tuple", 1, "distinct", (0,), ("ref",), "joined", "skip"),
            ("named", 1, "distinct", (1,), ("owned", "ref", "ref_mut"), "split", "skip"),
            ("tuple", 2, "same", (1, 0), ("owned", "ref", "ref_mut"), "joined", "skip"),
            ("named", 2, "same", (0, 1), ("owned", "ref_mut"), "rev", "ignore"),
            ("tuple", 3, "distinct", (0, 0, 0), ("owned", "ref", "ref_mut"), "joined", "skip"),
            ("named", 3, "same", (0, 0, 0), ("ref", "ref_mut"), "split", "skip"),
            ("tuple", 3, "same", (0, 1, 0), ("owned", "ref", "ref_mut"), "rev", "skip"),
            ("named", 3, "distinct", (1, 0, 0), ("ref", "ref_mut"), "joined", "ignore"),
            ("tuple", 3, "same", (1, 1, 0), ("owned", "ref", "ref_mut"), "split", "skip"),
            ("named", 3, "same", (0, 1, 1), ("ref_mut",), "joined", "skip"),
            ("tuple", 3, "same", (1, 0, 1), ("owned", "ref"), "joined", "skip"),
            ("tuple", 2, "distinct", (1, 1), ("owned", "ref", "ref_mut"), "joined", "skip"),
        ]
    else:
        cfgs = []
        c = 0
        for n in (1, 2, 3):
            for mask in itertools.product((0, 1), repeat=n):
                for ks in all_kinds:
                    for typing in (("distinct", "same") if n > 1 else ("distinct",)):
                        for sh in ("tuple", "named"):
                            c += 1
                            cfgs.append((sh, n, typing, mask, ks, ("joined", "split", "rev")[c % 3], ("skip", "ignore")[(c // 3) % 2]))
    for sh, n, typing, mask, ks, style, sw in cfgs:
        key = "i_%s%d_%s_%s_skip%s_%s" % (sh, n, typing, "_".join(k.replace("ref_mut", "mut") for k in ks), "".join(map(str, mask)), style)
        out.append(prog_into(key, sh, field_tys(n, typing), skip=[bool(m) for m in mask], sattr=kinds_attr(ks), style=style, skipword=sw))
    return out


def into_typed_programs(tier):
    out = []
    S = lambda n, typing="distinct": field_tys(n, typing, SEED)
    # struct-level listed types ----------------------------------------------------------------------------------------
    out.append(prog_into("it_tuple1_ty", "tuple", S(1), sattr={"owned": (False, [["conv"], ["conv2"]])}, style="bare"))
    out.append(prog_into("it_named2_ty_same", "named", S(2, "same"), sattr={"owned": (False, [["conv", "conv"], ["own", "conv2"]])}, style="bare"))
    out.append(prog_into("it_tuple3_ty_split", "tuple", S(3), sattr={"owned": (False, [["conv", "conv", "conv"], ["conv2", "own", "conv"]])},
                         style="split"))
    out.append(prog_into("it_named3_same_all_kinds_ty", "named", S(3, "same"),
                         sattr={"owned": (True, [["conv", "conv", "conv"]]), "ref": (True, [["tr", "tr", "tr"], ["own", "tr", "own"]]),
                                "ref_mut": (False, [["tr", "own", "tr"]])}, style="joined"))
    out.append(prog_into("it_tuple3_skip1_ref_ty", "tuple", S(3, "same"), skip=[False, True, False],
                         sattr={"ref": (False, [["tr", "own"]]), "ref_mut": (True, [["tr", "tr"]]), "owned": (False, [["conv", "conv2"]])},
                         style="rev"))
    # field-level ------------------------------------------------------------------------------------------------------
    out.append(prog_into("if_tuple3_same_field1_into", "tuple", field_tys(3, "same"), fattr=[None, {}, None]))
    out.append(prog_into("if_named3_distinct_fields02_into", "named", field_tys(3, "distinct"), fattr=[{}, None, {}]))
    out.append(prog_into("if_named3_struct_and_field", "named", field_tys(3, "same"), sattr={}, fattr=[None, None, {}]))
    out.append(prog_into("if_tuple3_field_kinds", "tuple", field_tys(3, "distinct"),
                         fattr=[{"ref": (True, [])}, None, {"ref_mut": (True, []), "owned": (True, [])}], style="split"))
    out.append(prog_into("if_tuple3_field_ty_mixed", "tuple", S(3, "same"), skip=[False, True, False],
                         sattr={"ref": (False, [["own", "tr"]])},
                         fattr=[{"owned": (True, []), "ref": (False, [["tr"]])}, {"ref": (True, [])},
                                {"ref_mut": (False, [["own"], ["tr"]])}], style="joined"))
    out.append(prog_into("if_named2_repeated_attrs", "named", S(2),
                         sattr={"ref": (True, []), "owned": (True, [["own", "conv"]]), "ref_mut": (False, [["own", "tr"]])},
                         fattr=[{"ref": (True, [["tr"]]), "owned": (True, [])}, {"ref_mut": (True, [["tr"]]), "owned": (True, [])}],
                         style="split"))
    # a field carrying BOTH its own conversion attribute and skip, no struct attribute (doc/into.md "Fields": once a field has its own
    # `#[into..]`, "no conversion into a tuple of all fields is generated, unless an explicit struct attribute is present"; the skipped
    # field still gets its own conversions, cf. the last example of that section).  Expected set = the field's own conversions only;
    # the struct-level tuple of the non-skipped fields must be ABSENT for owned, ref and ref_mut (assert_not_impl_any!).
    # Both attribute orders (style "rev" puts skip first), tuple and named, 2-3 fields.
    out.append(prog_into("ifs_named3_distinct_field0_ref_then_skip", "named", field_tys(3, "distinct"), skip=[True, False, False],
                         fattr=[{"ref": (True, [])}, None, None], style="joined"))
    out.append(prog_into("ifs_tuple2_distinct_field0_skip_then_into", "tuple", field_tys(2, "distinct"), skip=[True, False],
                         fattr=[{}, None], style="rev"))
    out.append(prog_into("ifs_tuple3_same_field1_owned_mut_then_skip", "tuple", field_tys(3, "same"), skip=[False, True, False],
                         fattr=[None, {"owned": (True, []), "ref_mut": (True, [])}, None], style="split"))
    out.append(prog_into("ifs_named2_distinct_both_fields_skip_then_conv", "named", field_tys(2, "distinct"), skip=[True, True],
                         fattr=[{"ref": (True, [])}, {}], style="rev", skipword="ignore"))
    out.append(prog_into("ifs_named3_distinct_field0_conv_skip_field2_skip", "named", field_tys(3, "distinct"), skip=[True, False, True],
                         fattr=[{"ref": (True, []), "ref_mut": (True, [])}, None, None], style="joined"))
    out.append(prog_into("ifs_tuple3_distinct_field2_skip_then_ty", "tuple", S(3), skip=[False, False, True],
                         fattr=[None, None, {"owned": (False, [["conv"]]), "ref": (False, [["tr"]])}], style="rev"))
    if tier == "thorough":
        c = 0
        fkinds = [{}, {"ref": (True, [])}, {"ref_mut": (True, [])}, {"owned": (True, []), "ref": (True, []), "ref_mut": (True, [])}]
        for n in (2, 3):
            for sh in ("tuple", "named"):
                for i in range(n):
                    for style in ("joined", "rev"):
                        c += 1
                        fa = [None] * n
                        fa[i] = fkinds[c % len(fkinds)]
                        typing = ("distinct", "same")[(c // 2) % 2]
                        key = "ifs_%s%d_%s_field%d_%s_%s" % (sh, n, typing, i, "_".join(k.replace("ref_mut", "mut") for k in fa[i]) or "into", style)
                        if key not in {p.key for p in out}:
                            out.append(prog_into(key, sh, field_tys(n, typing), skip=[j == i for j in range(n)], fattr=fa, style=style,
                                                 skipword=("skip", "ignore")[c % 2]))
        out.append(prog_into("it_named1_ty_kinds", "named", S(1), sattr={"owned": (True, [["conv"]]), "ref": (False, [["tr"], ["own"]]),
                                                                         "ref_mut": (True, [["tr"]])}, style="split"))
        out.append(prog_into("it_tuple2_ty_rev", "tuple", S(2), sattr={"owned": (False, [["conv2", "conv"]]), "ref_mut": (False, [["tr", "tr"]])},
                             style="rev"))
        out.append(prog_into("it_named3_skip02_ty", "named", S(3, "same"), skip=[True, False, True],
                             sattr={"owned": (True, [["conv"]]), "ref": (False, [["tr"]]), "ref_mut": (True, [])}))
        out.append(prog_into("it_tuple3_skip0_ty_same", "tuple", S(3, "same"), skip=[True, False, False],
                             sattr={"owned": (False, [["conv", "conv"]]), "ref": (False, [["tr", "tr"]]), "ref_mut": (False, [["tr", "tr"]])}))
        out.append(prog_into("it_tuple3_skip2_ty_same", "tuple", S(3, "same"), skip=[False, False, True],
                             sattr={"owned": (False, [["conv", "conv"]]), "ref": (False, [["tr", "tr"]]), "ref_mut": (False, [["tr", "tr"]])}))
        for i in range(3):
            fa = [None] * 3
            fa[i] = {"owned": (True, [["conv"]]), "ref": (True, []), "ref_mut": (False, [["tr"]])}
            out.append(prog_into("if_tuple3_same_field%d_all" % i, "tuple", S(3, "same"), fattr=fa, style=("joined", "split", "rev")[i]))
            fa = [None] * 3
            fa[i] = {}
            sk = [j == i for j in range(3)]
            out.append(prog_into("if_named3_same_field%d_into_and_skip" % i, "named", field_tys(3, "same"), skip=sk, sattr={"owned": (True, []), "ref": (True, [])},
                                 fattr=fa, style=("rev", "joined", "split")[i]))
        out.append(prog_into("if_tuple2_distinct_each_field_ref_mut", "tuple", field_tys(2, "distinct"),
                             fattr=[{"ref_mut": (True, [])}, {"ref_mut": (True, []), "ref": (True, [])}]))
    return out


def from_struct_programs(tier):
    out = []
    C = lambda n, typing="distinct": field_tys(n, typing, CONV)
    V = lambda *a, **k: Variant("S", *a, **k)
    out.append(prog_from("f_tuple1_ty", [V("tuple", C(1), "types", [["seed"], ["seed2"]])], False, extra_negs=["S: From<Conv<0>>", "S: From<()>"]))
    out.append(prog_from("f_named2_ty_same", [V("named", C(2, "same"), "types", [["seed", "seed"], ["seed2", "seed"], ["own", "seed2"]])], False,
                         extra_negs=["S: From<(Conv<0>, Conv<0>)>", "S: From<(Seed<0>, Seed2<0>)>", "S: From<Seed<0>>"]))
    out.append(prog_from("f_tuple3_ty_split", [V("tuple", C(3), "types", [["seed", "seed", "seed"], ["seed2", "own", "seed"]], split=True)], False,
                         extra_negs=["S: From<(Seed<0>, Seed<1>)>"]))
    out.append(prog_from("f_tuple3_ty_same", [V("tuple", C(3, "same"), "types", [["seed", "seed", "seed"], ["seed", "seed2", "seed"]])], False))
    out.append(prog_from("f_tuple1_chain", [V("tuple", [CONV2(0)], "types", [["seed"], ["conv"]])], False, extra_negs=["S: From<Conv2<0>>", "S: From<Seed2<0>>"]))
    out.append(prog_from("f_tuple1_forward", [V("tuple", C(1), "forward", witnesses=[["seed"], ["seed2"], ["own"]], absent=[["onlyinto"]])], False,
                         extra_negs=["S: From<u32>", "S: From<Seed<1>>", "S: From<()>"]))
    out.append(prog_from("f_named3_forward_same", [V("named", C(3, "same"), "forward",
                                                     witnesses=[["seed", "seed", "seed"], ["seed2", "seed", "own"], ["seed", "seed2", "seed2"]],
                                                     absent=[["seed", "onlyinto", "seed"], ["onlyinto", "onlyinto", "onlyinto"], ["own", "seed2", "onlyinto"]])], False,
                         extra_negs=["S: From<(Seed<0>, Seed<0>)>", "S: From<(Seed<0>, Seed<0>, u32)>", "S: From<(Seed<1>, Seed<0>, Seed<0>)>"]))
    if tier == "thorough":
        out.append(prog_from("f_tuple2_forward", [V("tuple", C(2), "forward", witnesses=[["seed", "seed"], ["seed2", "own"], ["own", "seed2"]], absent=[["onlyinto", "seed"], ["seed", "onlyinto"]])], False,
                             extra_negs=["S: From<(Seed<1>, Seed<0>)>", "S: From<Seed<0>>"]))
        out.append(prog_from("f_named1_ty_own", [V("named", C(1), "types", [["own"], ["seed"]])], False, extra_negs=["S: From<Seed2<0>>"]))
        out.append(prog_from("f_named3_ty_same_split", [V("named", C(3, "same"), "types", [["seed2", "seed2", "seed"], ["seed", "seed", "seed2"]], split=True)],
                             False, extra_negs=["S: From<(Conv<0>, Conv<0>, Conv<0>)>"]))
        out.append(prog_from("f_tuple2_chain_same", [V("tuple", [CONV2(0), CONV2(0)], "types", [["seed", "conv"], ["conv", "seed"], ["conv", "conv"]])], False,
                             extra_negs=["S: From<(Seed<0>, Seed<0>)>"]))
        out.append(prog_from("f_unit_ty", [V("unit", [], "types", [[]])], False))
    return out


def enum_programs(tier):
    out = []
    I = lambda *ts: [INT(t) for t in ts]
    C = lambda n, typing="distinct": field_tys(n, typing, CONV)
    # default mode: every non-empty variant, none for unit / () / {}
    out.append(prog_from("e_default_all_shapes", [
        Variant("U", "unit", []), Variant("T0", "tuple", []), Variant("N0", "named", []),
        Variant("T1", "tuple", I("u8")), Variant("N1", "named", I("u16")),
        Variant("T2", "tuple", I("u8", "u16")), Variant("N2", "named", I("u32", "u32")),
        Variant("T3", "tuple", I("u32", "u32", "u32")), Variant("N3", "named", I("u8", "u16", "u32"))], True,
        extra_negs=["S: From<u32>", "S: From<(u16, u8)>"]))
    # skip / ignore do not switch to explicit mode
    out.append(prog_from("e_skip_ignore", [
        Variant("A", "tuple", I("u32", "u32")), Variant("B", "named", I("u8"), "skip"), Variant("C", "tuple", I("u16", "u16", "u16"), "ignore"),
        Variant("D", "named", I("u16", "u16", "u32")), Variant("E", "unit", []), Variant("F", "tuple", I("u16"))], True))
    # explicit mode by #[from]
    out.append(prog_from("e_explicit_from", [
        Variant("A", "tuple", I("u8")), Variant("B", "named", I("u32", "u32"), "from"), Variant("C", "unit", [], "from"),
        Variant("D", "tuple", I("u16", "u16", "u16")), Variant("E", "tuple", I("u8", "u8"), "skip"), Variant("F", "tuple", I("u32", "u32", "u32"), "from"),
        Variant("G", "named", [])], True))
    # explicit mode by types only
    out.append(prog_from("e_explicit_types", [
        Variant("A", "tuple", C(1), "types", [["seed"], ["seed2"]]), Variant("B", "named", I("u32", "u32")),
        Variant("C", "tuple", C(2, "same"), "types", [["seed", "seed2"]]), Variant("D", "tuple", I("u16")), Variant("E", "unit", [])], True,
        extra_negs=["S: From<Conv<0>>", "S: From<(Conv<0>, Conv<0>)>", "S: From<(Seed<0>, Seed<0>)>"]))
    # explicit mode by forward only
    out.append(prog_from("e_explicit_forward", [
        Variant("A", "tuple", I("u8")), Variant("B", "named", C(2, "same"), "forward", witnesses=[["seed", "seed"], ["own", "seed2"]], absent=[["onlyinto", "seed"], ["seed2", "onlyinto"]]),
        Variant("C", "tuple", I("u16", "u32", "u32")), Variant("D", "unit", [])], True,
        extra_negs=["S: From<(u8, u8)>", "S: From<(Seed<0>, u32)>"]))
    # mixture
    out.append(prog_from("e_mixed_attrs", [
        Variant("A", "tuple", C(1), "forward", witnesses=[["seed"], ["seed2"], ["own"]], absent=[["onlyinto"]]), Variant("B", "tuple", I("u32", "u32"), "from"),
        Variant("C", "named", C(3, "same"), "types", [["seed", "seed", "seed2"]], split=True), Variant("D", "tuple", I("u8", "u8"), "skip"),
        Variant("E", "named", I("u16", "u8")), Variant("F", "tuple", [], "from")], True,
        extra_negs=["S: From<u8>", "S: From<(Conv<0>, Conv<0>, Conv<0>)>"]))
    if tier == "thorough":
        # one enum per (variant field shape x attribute) beside an un-annotated sibling and a unit variant
        c = 0
        for n in (0, 1, 2, 3):
            for sh in (("unit", "tuple", "named") if n == 0 else ("tuple", "named")):
                for attr in (None, "from", "skip", "types", "forward"):
                    if n == 0 and attr in ("types", "forward"):
                        continue
                    c += 1
                    typing = "same" if c % 2 else "distinct"
                    if attr == "types":
                        v = Variant("X", sh, C(n, typing), "types", [["seed"] * n, (["seed2"] + ["own"] * (n - 1))], split=bool(c % 2))
                    elif attr == "forward":
                        v = Variant("X", sh, C(n, typing), "forward", witnesses=[["seed"] * n, ["own"] * (n - 1) + ["seed2"]],
                                    absent=[["seed"] * (n - 1) + ["onlyinto"]])
                    else:
                        v = Variant("X", sh, field_tys(n, typing), attr)
                    sib = Variant("Y", "named" if sh == "tuple" else "tuple", I("u16", "u8", "u16")[:(n + 1 if 0 < n < 3 else 2)])
                    vs = [Variant("U", "unit", []), v, sib] if c % 2 else [sib, v, Variant("U", "unit", [])]
                    out.append(prog_from("e_%s%d_%s_%s" % (sh, n, attr or "none", typing), vs, True))
        out.append(prog_from("e_single_unit", [Variant("U", "unit", [])], True))
        out.append(prog_from("e_single_tuple0", [Variant("U", "tuple", [])], True))
        out.append(prog_from("e_single_named0", [Variant("U", "named", [])], True))
        out.append(prog_from("e_all_skipped", [Variant("A", "tuple", I("u8"), "skip"), Variant("B", "named", I("u8", "u16"), "ignore")], True))
    return out


def generic_programs(tier):
    out = [prog_generic_struct("tuple"), prog_generic_into("named", True), prog_generic_enum()]
    if tier == "thorough":
        out += [prog_generic_struct("named"), prog_generic_into("tuple", False), prog_generic_into("tuple", True)]
    return out


def family(tier, seed):
    progs = plain_programs(tier) + into_kind_programs(tier) + into_typed_programs(tier) + from_struct_programs(tier) + \
        enum_programs(tier) + generic_programs(tier)
    if INCLUDE_LISTED_TUPLE_SINGLE_FIELD:
        progs += listed_tuple_single_field_programs()
    progs += listed_one_tuple_programs(tier) + enum_fieldless_annotated_programs(tier) + repeated_from_attr_programs(tier)
    progs.append(prog_into("i_named3_same_owned_ref_mut_skip010_rawkw", "named", field_tys(3, "same"), skip=[False, True, False],
                           sattr=kinds_attr(KINDS), names=["r#type", "r#in", "r#while"]))
    progs.append(prog_from("e_named_rawkw", [Variant("A", "named", [INT("u32"), INT("u32")], names=["r#type", "r#in"]),
                                             Variant("B", "named", [INT("u8")], "skip", names=["r#while"]),
                                             Variant("C", "named", [INT("u16"), INT("u16"), INT("u16")], "ignore", names=["r#fn", "r#if", "r#else"]),
                                             Variant("U", "unit", [])], True))
    keys = [p.key for p in progs]
    assert len(keys) == len(set(keys)), "duplicate program keys"
    n_type_level = sum(p.meta["type_level"] for p in progs)
    return Family(
        "C08", progs, common_src=COMMON, deps={"static_assertions": '"1.1"'},
        kani_flags=["-Z", "function-contracts"],
        level="proof",
        functions_under_contract=[
            "generated <T as From<(A, B, ..)>>::from for every struct / enum variant of the family (expanded by /repo/impl/src/from.rs), "
            "incl. the #[from(Ty, ..)] and #[from(forward)] forms",
            "generated T::new (expanded by /repo/impl/src/constructor.rs)",
            "generated <(A, ..) as From<T>>::from, <(&A, ..) as From<&T>>::from, <(&mut A, ..) as From<&mut T>>::from "
            "(expanded by /repo/impl/src/into.rs), incl. #[into(Ty, ..)], owned(..)/ref(..)/ref_mut(..), #[into(skip)] and field-level #[into..]",
        ],
        trusted_base=[
            "rustc's trait resolution for the %d `static_assertions::assert_not_impl_any!` type-level obligations (absence of impls); "
            "they are discharged when the harness crate is built and are not counted as verifier obligations" % n_type_level,
            "probe types of src/common.rs: their own `From` impls define what 'exactly one From::from' leaves behind (src, hops, via / REF_HOPS)",
        ],
        assumptions=[
            "the expected impl set of each program is computed by the generator from the rules documented in impl/doc/from.md and impl/doc/into.md",
            "`unsafe` in src/common.rs: the &Seed -> &Tr probe conversions re-type a pointer between two repr(transparent) wrappers of u32",
            "a type-generic second `From::from` through core's reflexive `impl<T> From<T> for T` is the identity and therefore unobservable",
        ],
        rule="one program per type definition (field count 0..3 x tuple/named/unit x pairwise-distinct or all-same field types x attribute "
             "placement; enums: several variants per definition); per program one obligation per generated impl group, each quantifying over "
             "every value of every field; distinct = harnesses discharged",
        extra_cov={"type_level_obligations": n_type_level,
                   "type_level_note": "assert_not_impl_any! assertions compiled with the harness crate; discharged by rustc, reported separately"},
    )
