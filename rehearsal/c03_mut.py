import sys,subprocess,os
wt='/tmp/wt_c03'
MUTS={
 'm1_no_0dollar_lookahead': ('impl/src/fmt/parsing.rs', '''        try_seq(&mut [
            &mut char('0'),
            &mut lookahead(check_char(|c| !matches!(c, '$'))),
        ]),''', '''        try_seq(&mut [
            &mut char('0'),
        ]),''', 'ob_format_spec'),
 'm2_x_before_xq': ('impl/src/fmt/parsing.rs', '''        &mut map(str("x?"), |i| (i, Type::LowerDebug)),
        &mut map(str("X?"), |i| (i, Type::UpperDebug)),
        &mut map(char('?'), |i| (i, Type::Debug)),
        &mut map(char('o'), |i| (i, Type::Octal)),
        &mut map(char('x'), |i| (i, Type::LowerHex)),''', '''        &mut map(char('x'), |i| (i, Type::LowerHex)),
        &mut map(str("x?"), |i| (i, Type::LowerDebug)),
        &mut map(str("X?"), |i| (i, Type::UpperDebug)),
        &mut map(char('?'), |i| (i, Type::Debug)),
        &mut map(char('o'), |i| (i, Type::Octal)),''', 'ob_type'),
 'm3_integer_before_parameter': ('impl/src/fmt/parsing.rs', '''        &mut map(parameter, |(i, p)| (i, Count::Parameter(p))),
        &mut map(integer, |(i, int)| (i, Count::Integer(int))),''', '''        &mut map(integer, |(i, int)| (i, Count::Integer(int))),
        &mut map(parameter, |(i, p)| (i, Count::Parameter(p))),''', 'ob_count'),
 'm4_counter_advances_for_explicit': ('impl/src/fmt/mod.rs', '''                let position = maybe_arg.map(Into::into).unwrap_or_else(|| {''', '''                if maybe_arg.is_some() { n += 1; }
                let position = maybe_arg.map(Into::into).unwrap_or_else(|| {''', 'ob_parse_fmt_string_counter'),
 'm5_no_ws_before_brace': ('impl/src/fmt/parsing.rs', '''    let input = whitespaces(input)?;

    let input = char('}')(input)?;''', '''    let input = char('}')(input)?;''', 'ob_format'),
 'm6_integer_unwrap': ('impl/src/fmt/parsing.rs', '''        |(i, int)| int.parse().ok().map(|int| (i, int)),''', '''        |(i, int)| Some((i, int.parse().unwrap())),''', 'tot_integer_long,ob_integer'),
 'm7_identifier_len_off': ('impl/src/fmt/parsing.rs', '''        |(i, _)| (i, &input[..(input.len() - i.len())]),
    )(input)
}''', '''        |(i, _)| (i, &input[..(input.len() - i.len()).saturating_sub(1).max(1)]),
    )(input)
}''', 'ob_identifier'),
 'm8_has_modifiers_forgets_sign': ('impl/src/fmt/mod.rs', '''                            s.align.is_some()
                                || s.sign.is_some()
                                || s.alternate.is_some()
                                || s.zero_padding.is_some()
                                || s.width.is_some()
                                || s.precision.is_some()
                                || !s.ty.is_trivial()
                        })
                        .unwrap_or_default(),
                    trait_name: ty.trait_name(),''', '''                            s.align.is_some()
                                || s.alternate.is_some()
                                || s.zero_padding.is_some()
                                || s.width.is_some()
                                || s.precision.is_some()
                                || !s.ty.is_trivial()
                        })
                        .unwrap_or_default(),
                    trait_name: ty.trait_name(),''', 'ob_parse_fmt_string_one'),
 'h1_harmless_rename': ('impl/src/fmt/parsing.rs', '''    let (input, sign) = optional_result(sign)(input);''', '''    let (input, sign) = { let maybe_sign = optional_result(sign)(input); maybe_sign };''', 'ob_format_spec'),
}
name=sys.argv[1]
f,old,new,only=MUTS[name]
subprocess.run(['git','-C',wt,'checkout','--','.'],check=True)
p=os.path.join(wt,f); s=open(p).read(); assert old in s, 'anchor lost'; open(p,'w').write(s.replace(old,new,1))
env=dict(os.environ, VERIF_REPO=wt)
if len(sys.argv)>2 and sys.argv[2]=='only': env['VERIF_ONLY']=only
r=subprocess.run(['./check',sys.argv[3] if len(sys.argv)>3 else 'C03','quick'],cwd='/verif',env=env,stdout=subprocess.PIPE,stderr=subprocess.DEVNULL,text=True)
print('==',name,'exit',r.returncode)
for ln in r.stdout.splitlines():
    if ln.startswith(('VIOLATION','UNDECIDED','NOTE','C03','C18')): print('  ',ln[:330])
subprocess.run(['git','-C',wt,'checkout','--','.'],check=True)
