#!/usr/bin/env python3
"""scratch: apply one named edit to /tmp/wt_C10, run repo tests + C10 quick, revert."""
import subprocess, sys, os, re, time, json
WT = "/tmp/wt_C10"
EDITS = {
 # --- property-breaking
 "B1_swap_operands_tuple": [("impl/src/add_helpers.rs",
    "let expr = quote! { self.#i.#method_ident(rhs.#i) };",
    'let expr = if method_ident.to_string().ends_with("_assign") { quote! { self.#i.#method_ident(rhs.#i) } } else { quote! { rhs.#i.#method_ident(self.#i) } };')],
 "B2_rhs_index_0_third_field": [("impl/src/add_helpers.rs",
    "let i = Index::from(i);\n        // generates `self.0.add(rhs.0)`\n        let expr = quote! { self.#i.#method_ident(rhs.#i) };",
    "let j = if i == 2 && fields[i].ty == fields[0].ty { Index::from(0) } else { Index::from(i) };\n        let i = Index::from(i);\n        let expr = quote! { self.#i.#method_ident(rhs.#j) };")],
 "B3_unit_mismatch_swapped": [("impl/src/add_like.rs",
    "derive_more::BinaryError::Unit(\n                            derive_more::UnitError::new(#operation_name)\n                        )",
    "derive_more::BinaryError::Mismatch(\n                            derive_more::WrongVariantError::new(#operation_name)\n                        )"),
   ("impl/src/add_like.rs",
    "_ => derive_more::core::result::Result::Err(derive_more::BinaryError::Mismatch(\n                derive_more::WrongVariantError::new(#operation_name)\n            ))",
    "_ => derive_more::core::result::Result::Err(derive_more::BinaryError::Unit(\n                derive_more::UnitError::new(#operation_name)\n            ))")],
 "B4_forward_rem_calls_div_named": [("impl/src/add_helpers.rs",
    "let expr = quote! { self.#field_id.#method_ident(rhs.#field_id) };",
    'let m2 = if method_ident == "rem" { quote::format_ident!("div") } else { method_ident.clone() };\n        let expr = quote! { self.#field_id.#m2(rhs.#field_id) };')],
 "B5_scalar_skips_third_field": [("impl/src/mul_helpers.rs",
    ".zip(members)\n        .map(|(casted_trait, member)| {\n            quote! { #casted_trait::#method_ident(#reference #member, rhs) }\n        })",
    ".zip(members)\n        .enumerate()\n        .map(|(n, (casted_trait, member))| {\n            if n < 2 { quote! { #casted_trait::#method_ident(#reference #member, rhs) } } else { quote! { #member } }\n        })")],
 "B6_sum_identity_wrong": [("impl/src/sum_like.rs",
    "quote! { #trait_path::#method_ident(derive_more::core::iter::empty::<#field_type>()) }",
    "quote! { #trait_path::#method_ident(derive_more::core::iter::once::<#field_type>(#trait_path::#method_ident(derive_more::core::iter::empty::<#field_type>()))) }")],
 "B7_assign_reversed_fields": [("impl/src/add_helpers.rs",
    "let i = Index::from(i);\n        // generates `self.0.add(rhs.0)`\n        let expr = quote! { self.#i.#method_ident(rhs.#i) };",
    "let k = fields.len() - 1 - i;\n        let j = if method_ident.to_string().ends_with(\"_assign\") && fields[i].ty == fields[k].ty { Index::from(k) } else { Index::from(i) };\n        let i = Index::from(i);\n        let expr = quote! { self.#i.#method_ident(rhs.#j) };")],
 "B8_sum_fold_swapped": [("impl/src/sum_like.rs",
    "iter.fold(#identity, #op_path::#op_method_ident)",
    "iter.fold(#identity, |__a, __b| #op_path::#op_method_ident(__b, __a))")],
 "B9_enum_named_swap": [("impl/src/add_like.rs",
    "#(#field_names: #l_vars.#method_iter(#r_vars)),*",
    "#(#field_names: #r_vars.#method_iter(#l_vars)),*")],
 "B10_neg_enum_tuple_skips_later_fields": [("impl/src/not_like.rs",
    "let mut body = quote! { #subtype(#(#vars.#method_iter()),*) };",
    "let mapped: Vec<_> = vars.iter().enumerate().map(|(n, v)| if n == 0 || method_ident != \"neg\" { quote! { #v.#method_ident() } } else { quote! { #v } }).collect();\n                let mut body = quote! { #subtype(#(#mapped),*) };")],
 "B11_not_struct_named_last_unmapped": [("impl/src/not_like.rs",
    "let expr = quote! { #field_id: self.#field_id.#method_ident() };\n        exprs.push(expr)",
    "let expr = if exprs.len() == 2 { quote! { #field_id: self.#field_id } } else { quote! { #field_id: self.#field_id.#method_ident() } };\n        exprs.push(expr)")],
 "B12_scalar_assign_last_field_twice": [("impl/src/mul_assign_like.rs",
    "#( #exprs; )*",
    "#( #exprs; )* #last_again;"),
   ("impl/src/mul_assign_like.rs",
    "let (impl_generics, _, where_clause) = generics.split_for_impl();",
    "let last_again = if exprs.len() > 1 { exprs.last().cloned() } else { None };\n    let (impl_generics, _, where_clause) = generics.split_for_impl();")],
 "B13_enum_same_variant_wrong_ctor": [("impl/src/add_like.rs",
    "derive_more::core::result::Result::Ok(\n                            #subtype(#(#l_vars.#method_iter(#r_vars)),*)\n                        )",
    "derive_more::core::result::Result::Ok(\n                            #first_same(#(#l_vars.#method_iter(#r_vars)),*)\n                        )"),
   ("impl/src/add_like.rs",
    "let size = unnamed_to_vec(fields).len();\n                let l_vars",
    "let first_same = data_enum.variants.iter().find(|v| matches!(v.fields, Fields::Unnamed(_)) && v.fields == variant.fields).map(|v| { let i = &v.ident; quote! { #input_type::#i } }).unwrap();\n                let size = unnamed_to_vec(fields).len();\n                let l_vars")],
 "B16_not_enum_named_reversed": [("impl/src/not_like.rs",
    "let mut body = quote! {\n                    #subtype{#(#field_names: #vars.#method_iter()),*}\n                };",
    "let rv: Vec<_> = if field_vec.len() == 2 && field_vec[0].ty == field_vec[1].ty { vars.iter().rev().cloned().collect() } else { vars.clone() };\n                let mut body = quote! {\n                    #subtype{#(#field_names: #rv.#method_iter()),*}\n                };")],
 "B19_enum_tuple_rhs_rotated": [("impl/src/add_like.rs",
    "#subtype(#(#l_vars.#method_iter(#r_vars)),*)",
    "#subtype(#(#l_vars.#method_iter(#r_rot)),*)"),
   ("impl/src/add_like.rs",
    "let r_vars = &numbered_vars(size, \"r_\");\n                let method_iter = method_iter.by_ref();\n                let matcher = quote! {\n                    (#subtype(#(#l_vars),*),",
    "let r_vars = &numbered_vars(size, \"r_\");\n                let fv = unnamed_to_vec(fields);\n                let r_rot: Vec<_> = (0..size).map(|i| if size == 3 && i != 1 && fv[0].ty == fv[2].ty { r_vars[2 - i].clone() } else { r_vars[i].clone() }).collect();\n                let method_iter = method_iter.by_ref();\n                let matcher = quote! {\n                    (#subtype(#(#l_vars),*),")],
 # --- harmless
 "H1_rename_vars": [("impl/src/add_like.rs", 'numbered_vars(size, "l_")', 'numbered_vars(size, "lhs_")'),
                    ("impl/src/add_like.rs", 'numbered_vars(size, "r_")', 'numbered_vars(size, "rhs_")')],
 "H2_sum_identity_let": [("impl/src/sum_like.rs",
    "iter.fold(#identity, #op_path::#op_method_ident)",
    "let __identity = #identity; iter.fold(__identity, |__acc, __item| #op_path::#op_method_ident(__acc, __item))")],
 "H3_ufcs_in_helpers": [("impl/src/add_helpers.rs",
    "let expr = quote! { self.#field_id.#method_ident(rhs.#field_id) };",
    "let expr = if method_ident.to_string().ends_with(\"_assign\") { quote! { self.#field_id.#method_ident(rhs.#field_id) } } else { quote! { { let __l = self.#field_id; let __r = rhs.#field_id; __l.#method_ident(__r) } } };")],
 "H4_assign_statements_reversed": [("impl/src/add_assign_like.rs", "#( #exprs; )*", "#( #rev; )*"),
    ("impl/src/add_assign_like.rs", "    quote! {\n        #[automatically_derived]", "    let rev: Vec<_> = exprs.iter().rev().collect();\n    quote! {\n        #[automatically_derived]")],
}
TESTS = ["add", "add_assign", "mul", "mul_assign", "not", "sum", "lib"]

def sh(cmd, **kw):
    p = subprocess.run(cmd, stdout=subprocess.PIPE, stderr=subprocess.STDOUT, text=True, **kw)
    return p.returncode, p.stdout

def main(name, tier="quick"):
    sh(["git", "-C", WT, "checkout", "--", "impl", "src"])
    for f, old, new in EDITS[name]:
        p = os.path.join(WT, f); s = open(p).read()
        n = s.count(old)
        assert n >= 1, (name, f, "pattern not found")
        s = s.replace(old, new)
        open(p, "w").write(s)
    rc, diff = sh(["git", "-C", WT, "diff", "--stat"])
    env = dict(os.environ, CARGO_NET_OFFLINE="true")
    t0 = time.time()
    cmd = ["cargo", "test", "--offline", "--features", "full"] + [x for t in TESTS for x in ("--test", t)]
    rc, out = sh(cmd, cwd=WT, env=env)
    res = re.findall(r"Running tests/(\w+)\.rs.*?\n(?:.*\n)*?test result: (\w+)\.", out)
    tests = "rc=%d %s" % (rc, " ".join("%s:%s" % r for r in res))
    if rc != 0:
        tests += "\n" + "\n".join(l for l in out.splitlines() if l.startswith("error") or "panicked" in l or "FAILED" in l)[:1500]
    t1 = time.time()
    rc2, out2 = sh(["python3", "/tmp/run_c10.py", tier], cwd="/verif", env=dict(env, VERIF_REPO=WT))
    viol = [l for l in out2.splitlines() if l.startswith("VIOLATION")]
    und = [l for l in out2.splitlines() if l.startswith("UNDECIDED")]
    summ = [l for l in out2.splitlines() if l.startswith("C10 ")]
    print("=== %s" % name)
    print("repo tests: %s (%.0fs)" % (tests, t1 - t0))
    print("check exit=%d (%.0fs) %s" % (rc2, time.time() - t1, summ))
    print("   %d VIOLATION lines, %d replayed natively" % (len(viol), sum(1 for v in viol if not v.rstrip().endswith("no-failing-input-found"))))
    progs = sorted({re.search(r"obligation=([^/]+)/", v).group(1) for v in viol})
    print("   programs: " + " ".join(progs))
    obs = sorted({re.search(r"obligation=[^/]+/(\S+)", v).group(1) for v in viol})
    print("   obligations: " + " ".join(obs))
    for v in viol[:4]:
        m = re.search(r"obligation=(\S+) (.*)$", v)
        tail = v.rstrip().endswith("no-failing-input-found")
        print("   V %s %s %s" % (m.group(1), "[not replayed]" if tail else "[REPLAYED natively]", m.group(2)[:110]))
    for u in und[:5]:
        print("   U " + u[:200])
    if not summ:
        print(out2[-3000:])
    sh(["git", "-C", WT, "checkout", "--", "impl", "src"])

if __name__ == "__main__":
    for n in sys.argv[1:]:
        main(n)
