#!/bin/bash
cd /verif
run() {
  t0=$(date +%s); VERIF_REPO=$2 ./check C06 quick > /tmp/c06_s_$1.out 2> /tmp/c06_s_$1.err; rc=$?; t1=$(date +%s)
  echo "=== $1 exit=$rc wall=$((t1-t0))s load=$(cut -d' ' -f1-3 /proc/loadavg) other_runs=$(ps aux | grep '[v]lib.main C06' | wc -l)"
  grep "^VIOLATION" /tmp/c06_s_$1.out | sed -E 's/property=C06 replay=[^ ]+ obligation=//; s/ @ File.*proofs::[a-z_0-9]+//' | cut -c1-150 | head -12
  echo "undecided: $(grep -c '^UNDECIDED' /tmp/c06_s_$1.out)  known: $(grep -c '^KNOWN-FINDING' /tmp/c06_s_$1.out)"
  grep '^UNDECIDED' /tmp/c06_s_$1.out | head -3 | cut -c1-160
  grep "dropping" /tmp/c06_s_$1.err | cut -c1-200
  tail -1 /tmp/c06_s_$1.out
}
run unchanged /repo
for k in 1 2 3; do git -C /tmp/wt_C06c apply /tmp/seed_out4/C06/$k/patch.diff || echo APPLY-FAIL; run r4_$k /tmp/wt_C06c; git -C /tmp/wt_C06c checkout -- .; done
