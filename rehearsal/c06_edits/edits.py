import sys, subprocess
WT='/tmp/wt_C06'
F=WT+'/src/fmt.rs'; D=WT+'/impl/src/fmt/debug.rs'
EDITS={
 # --- src/fmt.rs
 'E1_no_comma_1tuple_empty_name': (F, '''                if self.fields == 1 && self.empty_name && !self.is_pretty() {
                    self.fmt.write_str(",")?;
                }
''', ''),
 'E2_comma_also_in_pretty': (F, 'if self.fields == 1 && self.empty_name && !self.is_pretty() {', 'if self.fields == 1 && self.empty_name {'),
 'E3_padded_never_clears_on_newline': (F, "            self.on_newline = s.ends_with('\\n');\n            self.formatter.write_str(s)?;", "            self.on_newline = self.on_newline || s.ends_with('\\n');\n            self.formatter.write_str(s)?;"),
 'E4_fne_flat_spelling': (F, 'self.fmt.write_str(", ..)")', 'self.fmt.write_str(",..)")'),
 'E5_fne_pretty_spelling': (F, 'padded_formatter.write_str("..\\n")?;', 'padded_formatter.write_str("...\\n")?;'),
 'E6_fne_no_fields': (F, 'self.fmt.write_str("(..)")', 'self.fmt.write_str("(...)")'),
 'E7_pretty_trailing_comma_only_after_first': (F, 'padded_formatter.write_str(",\\n")', 'padded_formatter.write_str(if self.fields == 0 { ",\\n" } else { "\\n" })'),
 'E8_field_after_error_still_written': (F, '''        self.result = self.result.and_then(|_| {
            if self.is_pretty() {
                if self.fields == 0 {''', '''        self.result = Ok(()).and_then(|_| {
            if self.is_pretty() {
                if self.fields == 0 {'''),
 # --- impl/src/fmt/debug.rs
 'D1_skipped_tuple_field_still_printed': (D, '''                        Some(FieldAttribute::Left(_skip)) => {
                            exhaustive = false;
                            Ok::<_, syn::Error>(out)
                        }
                        Some(FieldAttribute::Right(fmt_attr)) => {
                            let deref_args = fmt_attr.additional_deref_args(self.fields);

                            Ok(quote! {
                                derive_more::__private::DebugTuple::field(''', '''                        Some(FieldAttribute::Left(_skip)) => {
                            exhaustive = false;
                            let ident = format_ident!("_{i}");
                            Ok::<_, syn::Error>(quote! {
                                derive_more::__private::DebugTuple::field(#out, &#ident)
                            })
                        }
                        Some(FieldAttribute::Right(fmt_attr)) => {
                            let deref_args = fmt_attr.additional_deref_args(self.fields);

                            Ok(quote! {
                                derive_more::__private::DebugTuple::field('''),
 'D2_finish_when_last_tuple_field_skipped': (D, '''                        Some(FieldAttribute::Left(_skip)) => {
                            exhaustive = false;
                            Ok::<_, syn::Error>(out)
                        }
                        Some(FieldAttribute::Right(fmt_attr)) => {
                            let deref_args = fmt_attr.additional_deref_args(self.fields);

                            Ok(quote! {
                                derive_more::__private::DebugTuple::field(''', '''                        Some(FieldAttribute::Left(_skip)) => {
                            if i + 1 != unnamed.unnamed.len() {
                                exhaustive = false;
                            }
                            Ok::<_, syn::Error>(out)
                        }
                        Some(FieldAttribute::Right(fmt_attr)) => {
                            let deref_args = fmt_attr.additional_deref_args(self.fields);

                            Ok(quote! {
                                derive_more::__private::DebugTuple::field('''),
 'D3_field_name_not_unrawed': (D, 'let field_str = field_ident.unraw().to_string();', 'let field_str = field_ident.to_string();'),
 'D4_named_skip_uses_finish': (D, 'quote! { derive_more::core::fmt::DebugStruct::finish_non_exhaustive(#out) }', 'quote! { derive_more::core::fmt::DebugStruct::finish(#out) }'),
 'E9_pretty_value_not_alternate': (F, 'padded_formatter.write_fmt(format_args!("{value:#?}"))?;', 'padded_formatter.write_fmt(format_args!("{value:?}"))?;'),
 'D5_variant_named_after_first_field_count': (D, '''            syn::Fields::Unit => {
                let ident = self.ident.unraw().to_string();''', '''            syn::Fields::Unit => {
                let ident = self.ident.unraw().to_string().to_lowercase();'''),
 # --- harmless
 'H1_prefix_written_in_two_pieces': (F, '''                let prefix = if self.fields == 0 { "(" } else { ", " };
                self.fmt.write_str(prefix)?;''', '''                if self.fields == 0 {
                    self.fmt.write_str("(")?;
                } else {
                    self.fmt.write_str(",")?;
                    self.fmt.write_str(" ")?;
                }'''),
 'H2_reordered_condition_and_name_via_format': (D, 'let field_str = field_ident.unraw().to_string();', 'let field_str = format!("{}", field_ident.unraw());'),
}
def apply(name):
    f, old, new = EDITS[name]
    s=open(f).read()
    assert s.count(old)==1, (name, s.count(old))
    open(f,'w').write(s.replace(old,new))
def revert(name):
    f, old, new = EDITS[name]
    subprocess.check_call(['git','-C',WT,'checkout','--',f.replace(WT+'/','')])
    if f==D: subprocess.check_call(['git','-C',WT,'apply','/tmp/C06_both.diff'])
if __name__=='__main__':
    cmd, name = sys.argv[1], sys.argv[2]
    if cmd=='apply': apply(name)
    elif cmd=='revert': revert(name)
    elif cmd=='list': print(' '.join(EDITS))
