#!/bin/bash
cd /verif
SKIP="s_tuple/ob_pretty_hex,s_tuple/ob_pretty_width,e_all_kinds/ob_pretty_hex_2,e_all_kinds/ob_pretty_width_2,n_tuple_in_tuple/ob_pretty_hex,n_tuple_in_tuple/ob_pretty_width,n_tuple_in_named/ob_pretty_hex,n_tuple_in_named/ob_pretty_width,bt_pretty/ob_first_opt_fin_hex,bt_pretty/ob_first_opt_fin_sign,bt_pretty/ob_first_opt_fin_zero,bt_pretty/ob_first_opt_fin_align,bt_pretty/ob_first_opt_fin_width,bt_pretty/ob_first_opt_fin_precision,bt_pretty/ob_first_opt_fin_fill"
for e in "$@"; do
  case $e in
    E9*) ONLY="bt_pretty,n_tuple,s_tuple" ;;
    E*) ONLY="bt_,s_tuple,k_tuple2" ;;
    D5*) ONLY="s_unit,e_all,raw_type_unit,g_enum" ;;
    E9*) ONLY="bt_pretty,n_tuple,s_tuple" ;;
    D*) ONLY="k_tuple2,k_named2,k_one_field,k_enum,raw_field_names,s_named" ;;
    H*) ONLY="bt_,s_tuple,k_tuple2,k_named2,raw_field_names" ;;
  esac
  python3 /tmp/c06_edits/edits.py apply $e || { echo "$e: APPLY FAILED"; continue; }
  t0=$(date +%s)
  C06_SKIP="$SKIP" C06_ONLY="$ONLY" VERIF_REPO=/tmp/wt_C06 ./check C06 quick > /tmp/c06_edits/$e.out 2> /tmp/c06_edits/$e.err
  rc=$?
  t1=$(date +%s)
  python3 /tmp/c06_edits/edits.py revert $e
  echo "=== $e exit=$rc wall=$((t1-t0))s"
  grep "^VIOLATION" /tmp/c06_edits/$e.out | sed -E 's/property=C06 replay=[^ ]+ obligation=//; s/ @ File.*proofs::[a-z_0-9]+//' | cut -c1-170
  grep "^UNDECIDED" /tmp/c06_edits/$e.out | cut -c1-170
  tail -1 /tmp/c06_edits/$e.out
done
git -C /tmp/wt_C06 diff --stat | tail -1
