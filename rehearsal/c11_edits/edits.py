import sys, re
W = "/tmp/wt_C11/"
def sub(path, old, new, count=1):
    p = W + path
    s = open(p).read()
    assert s.count(old) >= 1, (path, old[:60])
    s = s.replace(old, new, count) if count else s.replace(old, new)
    open(p, "w").write(s)

def B1():  # is_variant: variant #6 and later test for the neighbouring (previous) variant
    sub("impl/src/is_variant.rs", "    let mut funcs = vec![];\n    for variant_state in state.enabled_variant_data().variant_states {\n        let variant = variant_state.variant.unwrap();",
        "    let mut funcs = vec![];\n    let all_variants: Vec<_> = state.enabled_variant_data().variant_states.iter().map(|s| s.variant.unwrap()).collect();\n    for (vidx, variant_state) in state.enabled_variant_data().variant_states.into_iter().enumerate() {\n        let variant = variant_state.variant.unwrap();")
    sub("impl/src/is_variant.rs", "        let variant_ident = &variant.ident;\n\n        let data_pattern = match variant.fields {",
        "        let matched = if vidx >= 6 { all_variants[vidx - 1] } else { variant };\n        let variant_ident = &matched.ident;\n\n        let data_pattern = match matched.fields {")

def B2():  # unwrap owned: fields reversed when all field types are textually equal (>= 2 fields)
    sub("impl/src/unwrap.rs", "        let func = quote! {", 
        "        let ret_value_owned = {\n            let strs: Vec<String> = data_types.iter().map(|t| quote! { #t }.to_string()).collect();\n            if strs.len() >= 2 && strs.iter().all(|s| *s == strs[0]) {\n                let ids: Vec<_> = (0..strs.len()).rev().map(|n| format_ident!(\"field_{n}\")).collect();\n                quote! { (#(#ids),*) }\n            } else { ret_value.clone() }\n        };\n        let func = quote! {")
    sub("impl/src/unwrap.rs", "            pub fn #fn_name(self) -> (#(#data_types),*) {\n                match self {\n                    #pattern => #ret_value,",
        "            pub fn #fn_name(self) -> (#(#data_types),*) {\n                match self {\n                    #pattern => #ret_value_owned,")

def B3():  # try_unwrap owned: error for a unit variant carries the FIRST unit variant of the enum, not the original value
    sub("impl/src/try_unwrap.rs", "fn failed_block(state: &State, enum_name: &Ident, func_name: &Ident) -> TokenStream {\n    let arms = state",
        "fn failed_block(state: &State, enum_name: &Ident, func_name: &Ident) -> TokenStream {\n    let owned = !func_name.to_string().ends_with(\"_ref\") && !func_name.to_string().ends_with(\"_mut\");\n    let first_unit = state.variant_states.iter().map(|it| it.variant.unwrap()).find(|v| matches!(v.fields, Fields::Unit)).map(|v| v.ident.clone());\n    let arms = state")
    sub("impl/src/try_unwrap.rs", "            let variant_ident = &variant.ident;\n            let error = quote! {\n                derive_more::TryUnwrapError::<_>::new(\n                    val,",
        "            let variant_ident = &variant.ident;\n            let input = match (&first_unit, &variant.fields) {\n                (Some(u), Fields::Unit) if owned => quote! { { let _ = val; #enum_name :: #u } },\n                _ => quote! { val },\n            };\n            let error = quote! {\n                derive_more::TryUnwrapError::<_>::new(\n                    #input,")

def B4():  # try_into: in a group of >= 2 variants with >= 2 field types the last variant is missing from the or-pattern
    sub("impl/src/try_into.rs", "        for multi_field_data in multi_field_data {\n            let patterns",
        "        let skip_last = original_types.len() >= 2 && multi_field_data.len() >= 2;\n        let n_members = multi_field_data.len();\n        for (midx, multi_field_data) in multi_field_data.iter().enumerate() {\n            if skip_last && midx == n_members - 1 { continue; }\n            let patterns")

def B5():  # try_into: ignored field not skipped correctly: (kept, ignored, kept) binds fields 1,2 instead of 0,2
    sub("impl/src/try_into.rs", "                multi_field_data.matcher(&multi_field_data.field_indexes, &patterns),",
        "                {\n                    let mut idx = multi_field_data.field_indexes.clone();\n                    if idx == vec![0usize, 2usize] { idx = vec![1, 2]; }\n                    multi_field_data.matcher(&idx, &patterns)\n                },")

def B6():  # unwrap_x_mut of a 3-field variant returns the &mut of field 1 in position 0 and vice versa (equal types only)
    sub("impl/src/unwrap.rs", "        let mut_func = quote! {",
        "        let ret_value_mut = {\n            let strs: Vec<String> = data_types.iter().map(|t| quote! { #t }.to_string()).collect();\n            if strs.len() == 3 && strs[0] == strs[1] {\n                quote! { (field_1, field_0, field_2) }\n            } else { ret_value.clone() }\n        };\n        let mut_func = quote! {")
    sub("impl/src/unwrap.rs", "            pub fn #mut_fn_name(&mut self) -> (#(&mut #data_types),*) {\n                match self {\n                    #pattern => #ret_value,",
        "            pub fn #mut_fn_name(&mut self) -> (#(&mut #data_types),*) {\n                match self {\n                    #pattern => #ret_value_mut,")

def B7():  # unwrap_x of a unit variant X returns () instead of panicking when the value is another unit variant
    sub("impl/src/unwrap.rs", "        let func = quote! {",
        "        let extra_units: Vec<_> = if matches!(variant.fields, Fields::Unit) {\n            state.variant_states.iter().map(|it| it.variant.unwrap()).filter(|v| matches!(v.fields, Fields::Unit) && v.ident != variant.ident).map(|v| { let i = &v.ident; quote! { #enum_name :: #i => (), } }).collect()\n        } else { vec![] };\n        let func = quote! {")
    sub("impl/src/unwrap.rs", "                match self {\n                    #pattern => #ret_value,\n                    val @ _ => #failed_block,",
        "                match self {\n                    #pattern => #ret_value,\n                    #(#extra_units)*\n                    val @ _ => #failed_block,")

def B8():  # naming: acronyms are split letter by letter (XMLThing -> x_m_l_thing)
    for f in ("is_variant.rs",):
        sub("impl/src/" + f, "variant.ident.to_string().to_case(Case::Snake)",
            "variant.ident.to_string().without_boundaries(&[convert_case::Boundary::ACRONYM]).to_case(Case::Snake)", 0)

def B9():  # try_into ref_mut: Ok returns, for single-field groups of >= 2 variants, is fine, but the error of the OWNED form is rebuilt from ... (n/a)
    raise SystemExit("unused")

def B10():  # try_unwrap_x_ref: Err carries a reference to a promoted constant copy for unit variants (non-generic enums): ptr differs
    sub("impl/src/try_unwrap.rs", "fn failed_block(state: &State, enum_name: &Ident, func_name: &Ident) -> TokenStream {\n    let arms = state",
        "fn failed_block(state: &State, enum_name: &Ident, func_name: &Ident) -> TokenStream {\n    let is_ref = func_name.to_string().ends_with(\"_ref\") && state.input.generics.params.is_empty();\n    let arms = state")
    sub("impl/src/try_unwrap.rs", "            let variant_ident = &variant.ident;\n            let error = quote! {\n                derive_more::TryUnwrapError::<_>::new(\n                    val,",
        "            let variant_ident = &variant.ident;\n            let input = match &variant.fields {\n                Fields::Unit if is_ref => quote! { { let _ = val; &#enum_name :: #variant_ident } },\n                _ => quote! { val },\n            };\n            let error = quote! {\n                derive_more::TryUnwrapError::<_>::new(\n                    #input,")

def B11():  # try_into: an ignored tuple VARIANT with exactly one field is not skipped (it joins the `()` group)
    sub("impl/src/try_into.rs", "    for variant_state in state.enabled_variant_data().variant_states {",
        "    let mut vss: Vec<_> = state.enabled_variant_data().variant_states;\n    let enabled_idents: Vec<_> = vss.iter().map(|s| s.variant.unwrap().ident.clone()).collect();\n    for vs in state.variant_states.iter() {\n        let v = vs.variant.unwrap();\n        if !enabled_idents.contains(&v.ident) && matches!(&v.fields, syn::Fields::Unnamed(f) if f.unnamed.len() == 1) { vss.push(vs); }\n    }\n    for variant_state in vss {")

def H1():  # harmless: different panic message, different binding names, matches! -> match
    sub("impl/src/unwrap.rs", "\"called `{enum_name}::{fn_name}()` on a `{enum_name}::{variant_ident}` value\"", "\"`{enum_name}::{fn_name}()` was called on a `{enum_name}::{variant_ident}` value!\"")
    sub("impl/src/unwrap.rs", "format_ident!(\"field_{n}\")", "format_ident!(\"fld{n}\")")
    sub("impl/src/try_unwrap.rs", "format_ident!(\"field_{n}\")", "format_ident!(\"fld{n}\")")
    sub("impl/src/is_variant.rs", "derive_more::core::matches!(self, #enum_name ::#variant_ident #data_pattern)",
        "match self { #enum_name ::#variant_ident #data_pattern => true, _ => false }")

def H2():  # harmless: try_into binds with a different prefix and emits an explicit arm per other variant instead of `_`; accessors emitted in reverse order
    sub("impl/src/try_into.rs", "numbered_vars(original_types.len(), \"\")", "numbered_vars(original_types.len(), \"kept_\")")
    sub("impl/src/try_into.rs", "                        _ => derive_more::core::result::Result::Err(", "                        other => derive_more::core::result::Result::Err({ let value = other;")
    sub("impl/src/try_into.rs", "                            derive_more::TryIntoError::new(value, #variant_names, #output_type),\n                        ),",
        "                            derive_more::TryIntoError::new(value, #variant_names, #output_type) },\n                        ),")
    sub("impl/src/try_unwrap.rs", "    let imp = quote! {", "    funcs.reverse();\n    let imp = quote! {")

def B17():  # try_into: Ok tuple reversed when all target types are textually equal (>= 2)
    sub("impl/src/try_into.rs", "        let vars = if vars.len() == 1 {",
        "        let all_same = original_types.len() >= 2 && original_types.iter().all(|t| quote! { #t }.to_string() == { let f = original_types[0]; quote! { #f }.to_string() });\n        let rev: Vec<_> = vars.iter().rev().cloned().collect();\n        let vars = if all_same { &rev } else { vars };\n        let vars = if vars.len() == 1 {")

globals()[sys.argv[1]]()
