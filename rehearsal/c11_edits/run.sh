#!/bin/sh
# usage: run.sh EDIT...
for e in "$@"; do
  cd /tmp/wt_C11 && git checkout -q . && python3 /tmp/c11_edits/edits.py $e || { echo "== $e edit failed" >> /tmp/c11_edits/results.log; continue; }
  cd /verif
  start=$(date +%s)
  VERIF_REPO=/tmp/wt_C11 ./check C11 quick > /tmp/c11_edits/$e.out 2> /tmp/c11_edits/$e.err
  rc=$?
  end=$(date +%s)
  echo "== $e rc=$rc $((end-start))s" >> /tmp/c11_edits/results.log
  grep -E "^(VIOLATION|UNDECIDED|KNOWN|C11 )" /tmp/c11_edits/$e.out | cut -c1-400 >> /tmp/c11_edits/results.log
done
cd /tmp/wt_C11 && git checkout -q .
