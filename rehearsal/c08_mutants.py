#!/usr/bin/env python3
"""Deliberate breakages for C08: apply each edit to the scratch worktree (on top of the repair), run the repo's own
tests and `./check C08 quick`, restore."""
import os, re, shutil, subprocess, sys, time, json

WT = "/tmp/wt_C08"
BASE = "/tmp/wt_C08_base"
FILES = ["from.rs", "into.rs", "constructor.rs", "utils.rs"]
ENV = dict(os.environ, CARGO_NET_OFFLINE="true", CARGO_TERM_COLOR="never")

M = []


def mut(name, f, old, new, count=1):
    M.append((name, f, old, new, count))


# ---- subtle (meant to survive the repo's tests) ----
mut("S1_from_types_index_swapped_when_3_fields", "from.rs",
    """                    let init = self.expand_fields(|ident, ty, index| {
                        let ident = ident.into_iter();
                        let index = index.into_iter();
                        let from_ty = from_tys.next()""",
    """                    let nf = self.fields.len();
                    let init = self.expand_fields(|ident, ty, index| {
                        let ident = ident.into_iter();
                        let index = index.map(|ix| if nf == 3 { syn::Index::from(2 - ix.index as usize) } else { ix }).into_iter();
                        let from_ty = from_tys.next()""")
mut("S2_from_forward_index_reversed_when_3_fields", "from.rs",
    """                let init = self.expand_fields(|ident, ty, index| {
                    let ident = ident.into_iter();
                    let index = index.into_iter();
                    let gen_ident""",
    """                let nf = self.fields.len();
                let init = self.expand_fields(|ident, ty, index| {
                    let ident = ident.into_iter();
                    let index = index.map(|ix| if nf == 3 { syn::Index::from(2 - ix.index as usize) } else { ix }).into_iter();
                    let gen_ident""")
mut("S3_constructor_named_args_swapped", "constructor.rs",
    """    let ret_vars = field_names.clone();
    (quote! { #return_type{#(#field_names: #vars),*} }, ret_vars)""",
    """    let ret_vars = field_names.clone();
    let vars: Vec<Ident> = vars.iter().rev().cloned().collect();
    (quote! { #return_type{#(#field_names: #vars),*} }, ret_vars)""")
mut("S4_into_merge_ref_refmut_mixed_up", "into.rs",
    """        prev.r#ref.consider_fields_ty |= new.r#ref.consider_fields_ty;
        prev.ref_mut.tys.extend(new.ref_mut.tys);
        prev.ref_mut.consider_fields_ty |= new.ref_mut.consider_fields_ty;""",
    """        prev.r#ref.consider_fields_ty |= new.ref_mut.consider_fields_ty;
        prev.ref_mut.tys.extend(new.ref_mut.tys);
        prev.ref_mut.consider_fields_ty |= new.r#ref.consider_fields_ty;""")
mut("S5_into_ignore_not_honoured", "into.rs",
    """.map(|attr| attr.skip.is_some())""",
    """.map(|attr| attr.skip.is_some_and(|s| s.name() == "skip"))""")
mut("S6_into_ref_fields_reversed_when_3", "into.rs",
    """            let (impl_gens, _, where_clause) = gens.split_for_impl();
            let (_, ty_gens, _) = input_generics.split_for_impl();
""",
    """            let (impl_gens, _, where_clause) = gens.split_for_impl();
            let (_, ty_gens, _) = input_generics.split_for_impl();
            let fields_idents: Vec<_> = if ref_ && !mut_ && fields_idents.len() == 3 {
                fields_idents.iter().rev().collect()
            } else {
                fields_idents.iter().collect()
            };
""")
mut("S7_into_refmut_first_two_swapped_when_skipping", "into.rs",
    """            let (impl_gens, _, where_clause) = gens.split_for_impl();
            let (_, ty_gens, _) = input_generics.split_for_impl();
""",
    """            let (impl_gens, _, where_clause) = gens.split_for_impl();
            let (_, ty_gens, _) = input_generics.split_for_impl();
            let fields_idents: Vec<_> = if mut_ && fields_idents.len() == 2 && fields.iter().any(|(i, _)| *i == 2) {
                fields_idents.iter().rev().collect()
            } else {
                fields_idents.iter().collect()
            };
""")
# ---- blunt (from the task list; the repo's tests are expected to notice most of them too) ----
mut("B1_from_field_index_reversed", "from.rs",
    """wrap(field.ident.as_ref(), &field.ty, Some(i.into()))""",
    """wrap(field.ident.as_ref(), &field.ty, Some((self.fields.len() - 1 - i).into()))""")
mut("B2_into_skip_filter_inverted", "into.rs",
    """.filter_map(|(i, f, skip)| (!skip).then_some((i, f)))""",
    """.filter_map(|(i, f, skip)| skip.then_some((i, f)))""")
mut("B3_from_has_explicit_ignores_forward", "from.rs",
    """                            VariantAttribute::Empty(_)
                                | VariantAttribute::Types(_)
                                | VariantAttribute::Forward(_)
                        ),""",
    """                            VariantAttribute::Empty(_)
                                | VariantAttribute::Types(_)
                        ),""")
mut("B4_constructor_tuple_args_swapped", "constructor.rs",
    """    (quote! { #return_type(#(#vars),*) }, vars.clone())""",
    """    let rev: Vec<Ident> = vars.iter().rev().cloned().collect();
    (quote! { #return_type(#(#rev),*) }, vars.clone())""")
mut("B5_into_ref_and_refmut_lists_swapped", "into.rs",
    """            (&convs.r#ref, true, false),
            (&convs.ref_mut, true, true),""",
    """            (&convs.ref_mut, true, false),
            (&convs.r#ref, true, true),""")
mut("B6_from_unit_variants_get_impl", "from.rs",
    """        let skip_variant = self.has_explicit_from
            || (self.variant.is_some() && self.fields.is_empty());""",
    """        let skip_variant = self.has_explicit_from
            || (self.variant.is_some() && matches!(self.fields, syn::Fields::Unit) && false);""")
mut("B7_from_skip_switches_to_explicit_mode", "from.rs",
    """                            VariantAttribute::Empty(_)
                                | VariantAttribute::Types(_)
                                | VariantAttribute::Forward(_)
                        ),""",
    """                            VariantAttribute::Empty(_)
                                | VariantAttribute::Skip(_)
                                | VariantAttribute::Types(_)
                                | VariantAttribute::Forward(_)
                        ),""")
mut("B8_into_field_level_uses_field_0", "into.rs",
    """                fields: vec![(i, field)],""",
    """                fields: vec![(if i == 1 { 0 } else { i }, field)],""")
mut("X1_into_struct_default_although_field_attrs", "into.rs",
    """            .all(Option::is_none)
            .then(ConversionsAttribute::default)""",
    """            .any(Option::is_none)
            .then(ConversionsAttribute::default)""")
mut("X2_into_ref_also_generates_owned", "into.rs",
    """                    parse_inner(ahead, &mut out.r#ref)?;""",
    """                    parse_inner(ahead, &mut out.r#ref)?;
                    out.owned.consider_fields_ty = true;""")
mut("X3_from_empty_attr_does_not_switch_mode", "from.rs",
    """                            VariantAttribute::Empty(_)
                                | VariantAttribute::Types(_)""",
    """                            VariantAttribute::Types(_)""")
# ---- harmless ----
mut("H1_rename_local", "from.rs", "skip_variant", "omit_variant", count=2)
mut("H2_inline_always", "into.rs", """                        #[inline]
                        fn from(value: #r #lf #m #input_ident #ty_gens) -> Self {""",
    """                        #[inline(always)]
                        fn from(value: #r #lf #m #input_ident #ty_gens) -> Self {""")
mut("H3_reflexive_second_from_is_identity", "into.rs",
    """                                <#r #m #tys as derive_more::core::convert::From<_>>::from(
                                    #r #m value. #fields_idents
                                )""",
    """                                <#r #m #tys as derive_more::core::convert::From<_>>::from(
                                    <#r #m #tys as derive_more::core::convert::From<_>>::from(
                                        #r #m value. #fields_idents
                                    )
                                )""")


def restore():
    for f in FILES:
        shutil.copy(os.path.join(BASE, f), os.path.join(WT, "impl/src", f))


def run(cmd, cwd, env=ENV, timeout=3000):
    p = subprocess.run(cmd, cwd=cwd, env=env, stdout=subprocess.PIPE, stderr=subprocess.STDOUT, text=True, timeout=timeout)
    return p.returncode, p.stdout


def main():
    only = sys.argv[1:]
    tier = os.environ.get("TIER", "quick")
    rows = []
    for name, f, old, new, count in M:
        if only and not any(name.startswith(o) for o in only):
            continue
        restore()
        p = os.path.join(WT, "impl/src", f)
        s = open(p).read()
        assert s.count(old) == count, (name, s.count(old))
        open(p, "w").write(s.replace(old, new))
        t0 = time.time()
        rc, out = run(["cargo", "test", "--offline", "--features", "full", "--test", "from", "--test", "into", "--test", "constructor"], WT)
        res = re.findall(r"test result: (\w+)\. (\d+) passed; (\d+) failed", out)
        if rc == 0:
            repo = "pass"
        elif res:
            repo = "FAIL(%s failed)" % sum(int(r[2]) for r in res)
        else:
            repo = "FAIL(compile)"
        rc2, out2 = run(["./check", "C08", tier], "/verif", env=dict(ENV, VERIF_REPO=WT))
        viol = re.findall(r"^VIOLATION property=C08 replay=\S+ obligation=(\S+) (.*)$", out2, re.M)
        und = re.findall(r"^UNDECIDED property=C08 (.*)$", out2, re.M)
        summ = [l for l in out2.splitlines() if l.startswith("C08 ")]
        rows.append(dict(name=name, repo_tests=repo, check_rc=rc2,
                         violations=[(k, "no-input" if d.rstrip().endswith("no-failing-input-found") else "replayed") for k, d in viol],
                         undecided=und[:5], summary=summ, secs=round(time.time() - t0)))
        r = rows[-1]
        print("%-48s repo=%-16s check rc=%d  %s" % (name, repo, rc2, summ), flush=True)
        for k, how in r["violations"][:40]:
            print("      VIOLATION %-60s %s" % (k, how), flush=True)
        for u in und[:5]:
            print("      UNDECIDED " + u[:200], flush=True)
    restore()
    json.dump(rows, open("/tmp/c08_mutants_%s.json" % tier, "a"), indent=1)


main()
