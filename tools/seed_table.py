#!/usr/bin/env python3
"""Summarise /verif/seeded/*/meta.json as a markdown table (printed to stdout)."""
import glob, json, os
rows = []
for f in sorted(glob.glob(os.path.join(os.path.dirname(__file__), "..", "seeded", "*", "meta.json"))):
    d = json.load(open(f))
    c = d.get("check", {})
    v = c.get("violations", [])
    obs = []
    for x in v[:3]:
        i = x.find("obligation=")
        obs.append(x[i + 11:].split(" ")[0] if i >= 0 else "?")
    rows.append((os.path.basename(os.path.dirname(f)), (d.get("summary") or "")[:170].replace("|", "/").replace("\n", " "),
                 "yes" if d.get("confirmed") else "NO", "exit %s" % c.get("exit"),
                 ("detected" + (", replayed" if d.get("replayed") else ", type-level / no input")) if d.get("detected") else "MISSED",
                 ", ".join(obs)))
print("| seed | change (by an independent sub-agent; compiles, pinned suite passes, own demo fails) | confirmed | check | outcome | first obligations |")
print("|---|---|---|---|---|---|")
for r in rows:
    print("| %s | %s | %s | %s | %s | %s |" % r)
