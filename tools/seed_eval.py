#!/usr/bin/env python3
"""Confirm a candidate property-breaking change produced by an independent sub-agent and run the
registered check against it.  usage: seed_eval.py <ID> <k> [--src /tmp/seed_out] [--tier quick]

Steps (all in a scratch worktree of /repo under /tmp, removed afterwards):
  1. demo on the unchanged tree           -> must pass
  2. apply patch; full existing suite     -> must match the baseline (886 passed, only compile_fail failing)
  3. demo with the change                 -> must fail
  4. VERIF_REPO=<worktree> ./check <ID> <tier>   -> recorded (exit code, VIOLATION lines)
Result: /verif/seeded/<ID>_<k>/{patch.diff, demo.rs, meta.json}
"""
import json
import os
import re
import shutil
import subprocess
import sys
import time

VERIF = os.path.dirname(os.path.dirname(os.path.abspath(__file__)))
ENV = dict(os.environ, CARGO_NET_OFFLINE="true", CARGO_TERM_COLOR="never")


def sh(cmd, cwd=None, timeout=3600, env=None):
    try:
        p = subprocess.run(cmd, cwd=cwd, shell=isinstance(cmd, str), env=env or ENV, stdout=subprocess.PIPE, stderr=subprocess.STDOUT,
                           text=True, errors="replace", timeout=timeout, start_new_session=True)
        return p.returncode, p.stdout
    except subprocess.TimeoutExpired as e:
        # a demonstration that hangs (non-termination seeds): kill the whole process group, report as failure
        subprocess.run("pkill -9 -f %s" % (cwd or "seed_demo"), shell=True)
        return 124, "[timeout after %ss]" % timeout


def suite(wt):
    rc, out = sh("cargo test --workspace --no-fail-fast --offline", cwd=wt)
    passed = failed = 0
    failing = []
    for ln in out.splitlines():
        m = re.match(r"^test result: \w+\. (\d+) passed; (\d+) failed", ln)
        if m:
            passed += int(m.group(1))
            failed += int(m.group(2))
        m = re.match(r"^test (\S+) \.\.\. FAILED", ln)
        if m:
            failing.append(m.group(1))
    return passed, failed, failing, out


def demo(wt, demo_src):
    cmdtxt = ""
    try:
        cmdtxt = open(os.path.join(os.path.dirname(demo_src), "demo_cmd.txt")).read()
    except Exception:
        pass
    if "-p derive_more-impl" in cmdtxt:
        # parser-level demonstration living in the proc-macro crate's own tests directory
        os.makedirs(os.path.join(wt, "impl", "tests"), exist_ok=True)
        dst = os.path.join(wt, "impl", "tests", "seed_demo.rs")
        shutil.copy(demo_src, dst)
        rc, out = sh("cargo test -p derive_more-impl --features full --test seed_demo --offline", cwd=wt, timeout=600)
        os.remove(dst)
        m = re.findall(r"^test result: (\w+)\. (\d+) passed; (\d+) failed", out, re.M)
        return rc, m, out
    shutil.copy(demo_src, os.path.join(wt, "tests", "seed_demo.rs"))
    env = dict(ENV)
    if "#![feature(" in open(demo_src).read():
        env["RUSTC_BOOTSTRAP"] = "1"   # the demonstration itself needs a nightly feature (e.g. Backtrace fields)
    rc, out = sh("cargo test --offline --features full --test seed_demo", cwd=wt, env=env, timeout=600)
    os.remove(os.path.join(wt, "tests", "seed_demo.rs"))
    m = re.findall(r"^test result: (\w+)\. (\d+) passed; (\d+) failed", out, re.M)
    return rc, m, out


def main():
    pid, k = sys.argv[1], sys.argv[2]
    src = "/tmp/seed_out"
    tier = "quick"
    check_id = pid
    name = ""
    args = sys.argv[3:]
    while args:
        a = args.pop(0)
        if a == "--src":
            src = args.pop(0)
        elif a == "--tier":
            tier = args.pop(0)
        elif a == "--check":
            check_id = args.pop(0)
        elif a == "--name":
            name = args.pop(0)
    d = os.path.join(src, pid, k)
    while args:
        args.pop(0)
    out_dir = os.path.join(VERIF, "seeded", "%s_%s%s" % (pid, (name + "_") if name else "", k))
    os.makedirs(out_dir, exist_ok=True)
    wt = "/tmp/sc_%s_%s" % (pid, k)
    sh("git -C /repo worktree remove --force %s" % wt)
    rc, o = sh("git -C /repo worktree add --detach %s HEAD" % wt)
    assert rc == 0, o
    shutil.copy("/repo/Cargo.lock", wt)
    meta = {"property": pid, "candidate": k, "repo_head": sh("git -C /repo rev-parse --short HEAD")[1].strip()}
    try:
        src_meta = json.load(open(os.path.join(d, "meta.json")))
    except Exception:
        src_meta = {}
    meta["summary"] = src_meta.get("summary")
    meta["needs_to_manifest"] = src_meta.get("needs_to_manifest")
    t0 = time.time()
    try:
        rc0, m0, o0 = demo(wt, os.path.join(d, "demo.rs"))
        meta["demo_without_change"] = {"rc": rc0, "results": m0}
        rc, o = sh("git apply %s" % os.path.join(d, "patch.diff"), cwd=wt)
        meta["patch_applies"] = rc == 0
        if rc != 0:
            meta["error"] = o[-2000:]
            raise SystemExit
        p, f, failing, so = suite(wt)
        meta["suite_with_change"] = {"passed": p, "failed": f, "failing": failing}
        rc1, m1, o1 = demo(wt, os.path.join(d, "demo.rs"))
        meta["demo_with_change"] = {"rc": rc1, "results": m1, "tail": o1[-1500:]}
        meta["confirmed"] = bool(rc0 == 0 and rc1 != 0 and f == 1 and failing == ["compile_fail"] and p == 886)
        # run the registered check against the changed tree
        env = dict(ENV, VERIF_REPO=wt)
        rc, co = sh(["./check", check_id, tier], cwd=VERIF, env=env, timeout=7200)
        viol = [ln for ln in co.splitlines() if ln.startswith("VIOLATION")]
        und = [ln for ln in co.splitlines() if ln.startswith("UNDECIDED")]
        meta["check"] = {"cmd": "VERIF_REPO=<worktree with patch> ./check %s %s" % (check_id, tier), "exit": rc,
                         "violations": [v[:400] for v in viol[:12]], "n_violations": len(viol), "undecided": [u[:300] for u in und[:6]],
                         "summary_line": co.strip().splitlines()[-1] if co.strip() else ""}
        meta["detected"] = rc == 1 and len(viol) > 0
        meta["replayed"] = any("no-failing-input-found" not in v for v in viol)
    finally:
        meta["wall_s"] = round(time.time() - t0)
        shutil.copy(os.path.join(d, "patch.diff"), out_dir)
        shutil.copy(os.path.join(d, "demo.rs"), out_dir)
        json.dump(meta, open(os.path.join(out_dir, "meta.json"), "w"), indent=1)
        sh("git -C /repo worktree remove --force %s" % wt)
        shutil.rmtree(wt, ignore_errors=True)
        sh("git -C /repo worktree prune")
    print(json.dumps({k2: meta.get(k2) for k2 in ("property", "candidate", "confirmed", "detected", "replayed", "wall_s")}))
    print(meta.get("check", {}).get("summary_line"))


if __name__ == "__main__":
    main()
