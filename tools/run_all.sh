#!/bin/sh
# Runs every registered quick check on /repo's unchanged tree, one after the other, and validates the evidence files.
cd "$(dirname "$0")/.." || exit 2
ids=$(python3 -c "import json; print(' '.join(c['property_id'] for c in json.load(open('MANIFEST.json'))['checks']))")
rc_all=0
for id in $ids; do
  start=$(date +%s)
  ./check $id ${1:-quick} > /tmp/run_all_$id.out 2>/tmp/run_all_$id.err
  rc=$?
  end=$(date +%s)
  echo "$id exit=$rc $((end-start))s  $(tail -1 /tmp/run_all_$id.out | cut -c1-160)"
  grep -E '^(VIOLATION|UNDECIDED|KNOWN-FINDING)' /tmp/run_all_$id.out | cut -c1-300
  [ $rc -ne 0 ] && rc_all=1
done
python3-vt - <<'PY'
import json,jsonschema,glob
sch=json.load(open('/root/.vp/EVIDENCE.schema.json'))
for f in sorted(glob.glob('evidence/*.json')):
    try:
        ev=json.load(open(f)); jsonschema.validate(ev, sch)
        c=ev['coverage']
        ok = not (ev['level']=='proof' and c.get('obligations')!=c.get('discharged'))
        print(f, 'valid', 'OK' if ok else 'discharged!=obligations')
    except Exception as e:
        print(f, 'INVALID', str(e)[:200])
PY
exit $rc_all
